package checks

import (
	"fmt"
	"os"
	"path/filepath"
	"sort"
	"testing"

	"pgregory.net/rapid"

	h "verif/harness"
)

// ---------------------------------------------------------------------------
// C02: only entries whose identity changed are re-transferred

func c02Check(env *h.Env, c *histCase) error {
	dstDir := filepath.Join(env.Scratch, "dst")
	if err := os.Mkdir(dstDir, 0o755); err != nil {
		return h.Infra(err)
	}
	// initial sync
	o, err := runResync(env, c.Steps[0], c, 0, false, dstDir, false)
	if err != nil {
		return err
	}
	if o.res.Stuck != "" || o.res.SendErr != nil || o.res.RecvErr != nil {
		env.Class("initial-sync-rejected")
		return nil
	}
	for k := 1; k < len(c.Steps); k++ {
		diffNone := c.DiffNone[k-1]
		o, err := runResync(env, c.Steps[k], c, k, diffNone, dstDir, true)
		if err != nil {
			return err
		}
		if o.res.Stuck != "" {
			env.Class("stuck")
			return nil
		}
		if o.res.SendErr != nil || o.res.RecvErr != nil {
			env.Class("rejected")
			env.Note("err", fmt.Sprint(o.res.SendErr, " / ", o.res.RecvErr))
			return nil
		}
		what := fmt.Sprintf("re-sync %d (edits %v, differ-none=%v, memsrc=%v)", k, c.Edits[k], diffNone, c.MemSrc)
		// expected request set
		want := map[string]bool{}
		mayReq := map[string]bool{}
		for _, st := range o.announced {
			if !isRegular(st) || st.Linkname != "" {
				continue
			}
			switch {
			case diffNone:
				want[st.Path] = true
			case o.may[st.Path]:
				mayReq[st.Path] = true
			case o.changed[st.Path]:
				want[st.Path] = true
			}
		}
		got := map[string]int{}
		for _, p := range o.reqPaths {
			got[p]++
		}
		for p, n := range got {
			if n > 1 {
				return fmt.Errorf("%s: content of %q requested %d times", what, p, n)
			}
			if !want[p] && !mayReq[p] {
				st := o.annIdx[p]
				return fmt.Errorf("%s: content requested for %q whose identity did not change (announced %v, destination had %v)", what, p, keyOf(st), keyOf(o.destStat[p]))
			}
		}
		for p := range want {
			if got[p] == 0 {
				return fmt.Errorf("%s: no content request for %q although its identity changed or it is new (requests: %v)", what, p, o.reqPaths)
			}
		}
		nChanged, nSame := 0, 0
		if !diffNone {
			for p := range o.unchanged {
				if o.may[p] {
					continue
				}
				nSame++
				b, a := o.before[p], o.after[p]
				if a == nil {
					return fmt.Errorf("%s: unchanged entry %q disappeared", what, p)
				}
				if b.Kind == h.KDir {
					// a directory's identity excludes its mtime/size (its content may change)
					if a.Kind != h.KDir || a.Ino != b.Ino || a.Perm != b.Perm || a.Uid != b.Uid || a.Gid != b.Gid {
						return fmt.Errorf("%s: directory %q with unchanged identity was re-created or re-moded", what, p)
					}
					continue
				}
				if !h.SameEntry(a, b, false) {
					// attributes of an inode that has several names follow whichever of its names
					// was written last: if only they differ, that is not a rewrite of this entry
					if ax := *a; a.Kind == h.KFile && (a.Nlink > 1 || b.Nlink > 1) {
						ax.Xattrs = b.Xattrs
						if h.SameEntry(&ax, b, false) {
							continue
						}
					}
					return fmt.Errorf("%s: entry %q with unchanged identity was rewritten (inode %d -> %d, mtime %d -> %d)", what, p, b.Ino, a.Ino, b.Mtime, a.Mtime)
				}
			}
			for p := range o.changed {
				nChanged++
				// directories are updated in place
				if b, ok := o.before[p]; ok && b.Kind == h.KDir && o.annIdx[p].IsDir() {
					if a := o.after[p]; a == nil || a.Ino != b.Ino {
						return fmt.Errorf("%s: directory %q was re-created instead of updated", what, p)
					}
				}
			}
			if nChanged == 0 && len(o.removedTop) == 0 {
				env.Class("unchanged-resync")
				if len(o.reqPaths) != 0 || len(o.notes) != 0 {
					return fmt.Errorf("%s: nothing changed but %d requests and %d notifications were issued", what, len(o.reqPaths), len(o.notes))
				}
			}
		} else {
			env.Class("differ-none")
		}
		if nChanged > 0 && nSame > 0 {
			env.NonTrivial()
			env.Class("mixed-resync")
		}
		if len(o.may) > 0 {
			env.Class("hardlink-may")
		}
		// whatever was transferred, the destination must equal the source afterwards
		keep := o.keepOld(c.Filter)
		if diffNone {
			keep = func(string) bool { return false }
		}
		if errs := convergenceErrs(o.after, o.before, c.Steps[k], c.Filter, keep); errs.Len() > 0 {
			return fmt.Errorf("%s: destination differs from source afterwards: %v", what, errs.Err())
		}
	}
	return nil
}

func TestC02(t *testing.T) {
	r := h.NewRunner("C02")
	defer r.Finish(t)
	h.RunWith(t, r, "", func(t *rapid.T) *histCase { return genHist(t, true) }, c02Check)
	if t.Failed() {
		return
	}
	t.Run("unpriv", func(t *testing.T) {
		h.ScaleChecks(1, 25, func() { h.RunWith(t, r, "unpriv", genC01Unpriv, c02UnprivCheck) })
	})
}

// sub-run "unpriv": both ends as uid 1000 (chrooted sub-process), a transfer
// and then a re-sync of the unchanged source: nothing may be rewritten.
func c02UnprivCheck(env *h.Env, c *c01UnprivCase) error {
	jail := filepath.Join(env.Scratch, "jail")
	for _, d := range []string{"src", "dst"} {
		if err := os.MkdirAll(filepath.Join(jail, d), 0o755); err != nil {
			return h.Infra(err)
		}
	}
	if err := h.Materialise(c.Src, filepath.Join(jail, "src")); err != nil {
		return h.Infra(err)
	}
	if c.Dst != nil {
		if err := h.Materialise(c.Dst, filepath.Join(jail, "dst")); err != nil {
			return h.Infra(err)
		}
	}
	for _, d := range []string{"src", "dst"} {
		if err := os.Chown(filepath.Join(jail, d), 1000, 1000); err != nil {
			return h.Infra(err)
		}
	}
	os.Chmod(jail, 0o755)
	os.Chmod(env.Scratch, 0o755)
	var snaps []h.Snap
	for round := 0; round < 2; round++ {
		var res c01JailResult
		if err := runJailed(jail, "sync", 1000, c01JailArg{Capacity: c.Capacity}, &res); err != nil {
			return h.Infra(err)
		}
		if res.Stuck || res.SendErr != "" || res.RecvErr != "" {
			env.Class("rejected")
			return nil
		}
		sn, err := h.Snapshot(filepath.Join(jail, "dst"))
		if err != nil {
			return h.Infra(err)
		}
		snaps = append(snaps, sn)
	}
	env.Class("unprivileged-resync")
	for _, n := range c.Src.Nodes {
		if n.Kind == h.KFile && (n.Perm&0o6000 != 0 || n.Perm&0o200 == 0) && n.Size > 0 {
			env.NonTrivial()
		}
	}
	for p, a := range snaps[0] {
		b := snaps[1][p]
		if b == nil {
			return fmt.Errorf("unprivileged re-sync of an unchanged source: %q disappeared", p)
		}
		if a.Ino != b.Ino || (a.Kind != h.KDir && a.Mtime != b.Mtime) || a.Perm != b.Perm {
			return fmt.Errorf("unprivileged re-sync of an unchanged source rewrote %q (inode %d -> %d, mode %o -> %o, mtime %d -> %d)", p, a.Ino, b.Ino, a.Perm, b.Perm, a.Mtime, b.Mtime)
		}
	}
	return nil
}

var _ = sort.Strings
