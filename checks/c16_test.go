package checks

import (
	"context"
	"fmt"
	"os"
	"path"
	"path/filepath"
	"sort"
	"strings"
	"testing"

	"github.com/tonistiigi/fsutil"
	fscopy "github.com/tonistiigi/fsutil/copy"
	"pgregory.net/rapid"

	h "verif/harness"
)

// ---------------------------------------------------------------------------
// C16: copy include/exclude selects exactly the reference set, no extra dirs

type c16Case struct {
	Tree          *h.Tree  `json:"tree"`
	Include       []string `json:"include"`
	Exclude       []string `json:"exclude"`
	Dst           *h.Tree  `json:"dst"` // populated destination (nil = empty)
	AlwaysReplace bool     `json:"alwaysreplace"`
	EmptyLists    bool     `json:"emptylists,omitempty"` // lists without patterns are empty non-nil slices
}

var c16TreeCfg = h.TreeCfg{
	MaxEntries: 14, MaxDepth: 4,
	Names:  []string{"a", "b", "c", "ab", "a-b", "a.b", "a0", "d", "x", "foo", "bar", "baz"},
	Kinds:  []h.Kind{h.KFile, h.KFile, h.KFile, h.KSymlink, h.KFifo},
	Xattrs: true, XattrNS: []string{"user.", "trusted."}, BigXattrs: true, Hardlinks: true, SymTargets: []string{"a", "../b", "/c", "dangling"}, UncleanTargets: true,
}

func genC16(t *rapid.T) *c16Case {
	c := &c16Case{Tree: h.GenTree(t, c16TreeCfg, "t")}
	c.Include = h.GenPatterns(t, c.Tree, "inc", 3)
	c.Exclude = h.GenPatterns(t, c.Tree, "exc", 3)
	c.EmptyLists = rapid.IntRange(0, 2).Draw(t, "emptylists") == 0
	c.AlwaysReplace = rapid.IntRange(0, 3).Draw(t, "alwaysreplace") == 0
	if rapid.IntRange(0, 2).Draw(t, "populated") == 0 {
		// unrelated old entries plus already-existing copies of some source directories
		d := &h.Tree{}
		for _, n := range c.Tree.Nodes {
			if n.Kind == h.KDir && rapid.IntRange(0, 2).Draw(t, "olddir"+n.Path) == 0 {
				if par := path.Dir(n.Path); par == "." || d.Index()[par] != nil {
					d.Nodes = append(d.Nodes, h.Node{Path: n.Path, Kind: h.KDir, Perm: 0o711, Uid: 42, Gid: 43, Mtime: 4242})
				}
			}
		}
		// with always-replace: old non-directories sitting where the source has a directory
		// (replaced if that directory is selected, untouched otherwise)
		if c.AlwaysReplace {
			for _, n := range c.Tree.Nodes {
				if n.Kind != h.KDir || d.Index()[n.Path] != nil || rapid.IntRange(0, 2).Draw(t, "oldatdir"+n.Path) != 0 {
					continue
				}
				if par := path.Dir(n.Path); par == "." || (d.Index()[par] != nil && d.Index()[par].Kind == h.KDir) {
					old := h.Node{Path: n.Path, Kind: h.KFile, Perm: 0o600, Mtime: 555, Seed: 88, Size: 6}
					if rapid.Bool().Draw(t, "oldatdirsym"+n.Path) {
						old = h.Node{Path: n.Path, Kind: h.KSymlink, Target: "old-target", Mtime: 555}
					}
					d.Nodes = append(d.Nodes, old)
				}
			}
		}
		// old non-directories sitting at the paths of source non-directories
		for _, n := range c.Tree.Nodes {
			if n.Kind == h.KDir || rapid.IntRange(0, 2).Draw(t, "oldfile"+n.Path) != 0 {
				continue
			}
			if par := path.Dir(n.Path); par == "." || d.Index()[par] != nil {
				old := h.Node{Path: n.Path, Kind: h.KFile, Perm: 0o640, Uid: 7, Mtime: 999, Seed: 77, Size: 5}
				if rapid.Bool().Draw(t, "oldsym"+n.Path) {
					old = h.Node{Path: n.Path, Kind: h.KSymlink, Target: "old-target", Mtime: 999}
				}
				d.Nodes = append(d.Nodes, old)
			}
		}
		dirs := []string{""}
		for _, n := range d.Nodes {
			if n.Kind == h.KDir {
				dirs = append(dirs, n.Path)
			}
		}
		k := rapid.IntRange(1, 4).Draw(t, "nold")
		for i := 0; i < k; i++ {
			par := dirs[rapid.IntRange(0, len(dirs)-1).Draw(t, fmt.Sprintf("oldpar%d", i))]
			p := fmt.Sprintf("old%d", i)
			if par != "" {
				p = par + "/" + p
			}
			d.Nodes = append(d.Nodes, h.Node{Path: p, Kind: h.KFile, Perm: 0o600, Mtime: 777, Seed: uint32(500 + i), Size: 9})
		}
		d.Normalize()
		c.Dst = d
	}
	return c
}

func c16Check(env *h.Env, c *c16Case) error {
	srcDir := filepath.Join(env.Scratch, "src")
	dstDir := filepath.Join(env.Scratch, "dst")
	for _, d := range []string{srcDir, dstDir} {
		if err := os.Mkdir(d, 0o755); err != nil {
			return h.Infra(err)
		}
	}
	if err := h.Materialise(c.Tree, srcDir); err != nil {
		return h.Infra(err)
	}
	if c.Dst != nil {
		if err := h.Materialise(c.Dst, dstDir); err != nil {
			return h.Infra(err)
		}
		env.Class("populated-dest")
	}
	srcSnap, err := h.Snapshot(srcDir)
	if err != nil {
		return h.Infra(err)
	}
	before, err := h.Snapshot(dstDir)
	if err != nil {
		return h.Infra(err)
	}
	var listing []h.FilterEntry
	for _, p := range srcSnap.Paths() {
		listing = append(listing, h.FilterEntry{Path: p, IsDir: srcSnap[p].Kind == h.KDir})
	}
	refFor := func(chain bool) ([]string, *h.RefFilterResult, error) {
		mk := h.NewRefMatcher
		if chain {
			mk = h.NewChainMatcher
		}
		inc, err := mk(c.Include)
		if err != nil {
			return nil, nil, err
		}
		exc, err := mk(c.Exclude)
		if err != nil {
			return nil, nil, err
		}
		r, err := h.RefFilter(listing, inc, exc, nil, nil)
		if err != nil {
			return nil, nil, err
		}
		out := append([]string{}, r.Reported...)
		sort.Strings(out)
		return out, r, nil
	}
	refSet, refRes, rerr := refFor(false)

	var opts []fscopy.Opt
	if c.EmptyLists {
		opts = append(opts, func(ci *fscopy.CopyInfo) { ci.IncludePatterns, ci.ExcludePatterns = []string{}, []string{} })
		if len(c.Include) == 0 || len(c.Exclude) == 0 {
			env.Class("empty-non-nil-pattern-list")
		}
	}
	for _, p := range c.Include {
		opts = append(opts, fscopy.WithIncludePattern(p))
	}
	for _, p := range c.Exclude {
		opts = append(opts, fscopy.WithExcludePattern(p))
	}
	if c.AlwaysReplace {
		opts = append(opts, func(ci *fscopy.CopyInfo) { ci.AlwaysReplaceExistingDestPaths = true })
		env.Class("always-replace")
	}
	cerr := fscopy.Copy(context.Background(), srcDir, "/", dstDir, "/", opts...)
	if rerr != nil {
		env.Class("invalid-pattern")
		if cerr == nil {
			return fmt.Errorf("invalid pattern list (%v) but Copy succeeded", rerr)
		}
		return nil
	}
	if cerr != nil {
		// a source directory that meets an old non-directory is a conflict (C15's rule; always-replace
		// replaces a *selected* colliding path, never an unselected one or an ancestor): an error is
		// acceptable then, but an obstacle that is not selected must be left in place
		conflict := false
		after, serr := h.Snapshot(dstDir)
		if serr != nil {
			return h.Infra(serr)
		}
		for a, b := range before {
			if s := srcSnap[a]; b.Kind != h.KDir && s != nil && s.Kind == h.KDir {
				conflict = true
				if !contains(refSet, a) {
					if x := after[a]; x == nil || !h.SameEntry(x, b, false) {
						if chainSet, _, cherr := refFor(true); cherr == nil && contains(chainSet, a) {
							return env.Known("patternmatcher-parent-results-divergence", "include=%q exclude=%q always-replace: copy replaced the old entry %q, which the naive reference does not select but the unpruned MatchesUsingParentResults chain model does", c.Include, c.Exclude, a)
						}
						return fmt.Errorf("Copy failed (%v) and the old entry %q, which the patterns do not select, was removed or modified", cerr, a)
					}
				}
			}
		}
		if conflict {
			env.Class("dir-over-nondir-conflict")
			return nil
		}
		return fmt.Errorf("Copy with include=%q exclude=%q always-replace=%v failed: %v", c.Include, c.Exclude, c.AlwaysReplace, cerr)
	}
	after, err := h.Snapshot(dstDir)
	if err != nil {
		return h.Infra(err)
	}
	// the set of paths the copy wrote = new or changed paths, plus pre-existing directories it merged into
	var walkSet []string
	werr := fsutil.Walk(context.Background(), srcDir, &fsutil.FilterOpt{IncludePatterns: listArg(c.Include, c.EmptyLists), ExcludePatterns: listArg(c.Exclude, c.EmptyLists)}, func(p string, fi os.FileInfo, err error) error {
		if err != nil {
			return err
		}
		walkSet = append(walkSet, p)
		return nil
	})
	if werr != nil {
		return fmt.Errorf("filtered walk failed: %v", werr)
	}
	sort.Strings(walkSet)
	var copied []string
	replaced := map[string]bool{}
	for _, p := range after.Paths() {
		b, existed := before[p]
		a := after[p]
		if !existed {
			copied = append(copied, p)
			continue
		}
		// an old entry: untouched unless the copy merged a source directory into it
		// or replaced it by the selected source non-directory at the same path
		if s, inSrc := srcSnap[p]; inSrc {
			if b.Kind == h.KDir && a.Kind == h.KDir {
				continue // judged below through the expected set
			}
			if !h.SameEntry(a, b, false) {
				copied = append(copied, p)
				replaced[p] = true
			}
			_ = s
			continue
		}
		if !h.SameEntry(a, b, false) {
			return fmt.Errorf("old destination entry %q, which no source entry maps to, was modified", p)
		}
	}
	for p := range before {
		if after[p] == nil {
			return fmt.Errorf("old destination entry %q disappeared (include=%q exclude=%q)", p, c.Include, c.Exclude)
		}
	}
	// expected new paths = reference set minus directories that already existed
	expectNew := func(set []string) []string {
		var out []string
		for _, p := range set {
			if b, ok := before[p]; ok && b.Kind == h.KDir && srcSnap[p].Kind == h.KDir {
				continue
			}
			out = append(out, p)
		}
		return out
	}
	sort.Strings(copied)
	if refRes.Pruneable > 0 {
		env.Class("unselected-dir")
		env.NonTrivial()
	}
	if refRes.Lazy > 0 {
		env.Class("on-demand-ancestor")
		env.NonTrivial()
	}
	if h.HasNegation(c.Include) || h.HasNegation(c.Exclude) {
		env.Class("negation")
	}
	if !sameStrings(copied, expectNew(walkSet)) {
		return fmt.Errorf("include=%q exclude=%q: copy wrote %v but a filtered walk of the same tree reports %v", c.Include, c.Exclude, copied, expectNew(walkSet))
	}
	if !sameStrings(copied, expectNew(refSet)) {
		chainSet, _, cerr := refFor(true)
		if cerr == nil && sameStrings(copied, expectNew(chainSet)) {
			return env.Known("patternmatcher-parent-results-divergence", "include=%q exclude=%q: copy wrote %v, the naive reference selects %v; the unpruned MatchesUsingParentResults chain model reproduces the copy's answer", c.Include, c.Exclude, copied, expectNew(refSet))
		}
		return fmt.Errorf("include=%q exclude=%q: copy wrote %v, reference filter selects %v", c.Include, c.Exclude, copied, expectNew(refSet))
	}
	// content and metadata of what was written
	selected := map[string]bool{}
	for _, p := range refSet {
		selected[p] = true
	}
	inc, _ := h.NewRefMatcher(c.Include)
	exc, _ := h.NewRefMatcher(c.Exclude)
	direct := func(p string) bool {
		if inc != nil {
			if m, _ := inc.Match(p); !m {
				return false
			}
		}
		if exc != nil {
			if m, _ := exc.Match(p); m {
				return false
			}
		}
		return true
	}
	for _, p := range copied {
		s, a := srcSnap[p], after[p]
		if s.Kind != a.Kind {
			return fmt.Errorf("%q copied as %s, source is %s", p, a.Kind, s.Kind)
		}
		if a.Kind != h.KSymlink && a.Perm != s.Perm {
			return fmt.Errorf("%q: mode %04o, source has %04o", p, a.Perm, s.Perm)
		}
		if a.Uid != s.Uid || a.Gid != s.Gid {
			return fmt.Errorf("%q: owner %d:%d, source has %d:%d", p, a.Uid, a.Gid, s.Uid, s.Gid)
		}
		if fmt.Sprint(a.Xattrs) != fmt.Sprint(s.Xattrs) && (a.Kind == h.KFile || a.Kind == h.KDir) {
			lazy := ""
			if a.Kind == h.KDir && !direct(p) {
				lazy = " (ancestor created on demand)"
			}
			return fmt.Errorf("%q%s: xattrs %q, source has %q", p, lazy, a.Xattrs, s.Xattrs)
		}
		switch a.Kind {
		case h.KFile:
			if a.Sha != s.Sha {
				return fmt.Errorf("%q: content differs from the source", p)
			}
		case h.KSymlink:
			if a.Target != s.Target {
				return fmt.Errorf("%q: symlink target %q, source has %q", p, a.Target, s.Target)
			}
		}
		if a.Kind != h.KDir && a.Mtime != s.Mtime {
			return fmt.Errorf("%q: mtime %d, source has %d", p, a.Mtime, s.Mtime)
		}
	}
	_ = strings.Join
	return nil
}

func TestC16(t *testing.T) {
	h.Run(t, "C16", genC16, c16Check)
}

func contains(l []string, s string) bool {
	for _, x := range l {
		if x == s {
			return true
		}
	}
	return false
}
