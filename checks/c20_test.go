package checks

import (
	"bytes"
	"context"
	"encoding/binary"
	"fmt"
	"io"
	"os"
	"runtime"
	"testing"
	"testing/iotest"
	"unicode/utf8"

	"github.com/tonistiigi/fsutil/types"
	"github.com/tonistiigi/fsutil/util"
	"google.golang.org/protobuf/proto"
	"pgregory.net/rapid"

	h "verif/harness"
)

// ---------------------------------------------------------------------------
// C20: wire encoding and framing

type c20Stat struct {
	Path     h.BStr            `json:"path"`
	Mode     uint32            `json:"mode"`
	Uid      uint32            `json:"uid"`
	Gid      uint32            `json:"gid"`
	Size     int64             `json:"size"`
	ModTime  int64             `json:"mtime"`
	Linkname h.BStr            `json:"linkname"`
	Devmajor int64             `json:"maj"`
	Devminor int64             `json:"min"`
	XKeys    []h.BStr          `json:"xkeys"` // insertion order
	XVals    [][]byte          `json:"xvals"`
	EmptyMap bool              `json:"emptymap"` // non-nil empty map
	_        map[string][]byte `json:"-"`
}

type c20Packet struct {
	Type    int32    `json:"type"`
	ID      uint32   `json:"id"`
	Data    []byte   `json:"data"`
	NilData bool     `json:"nildata"`
	Stat    *c20Stat `json:"stat,omitempty"`
}

func (s *c20Stat) build(reverse bool) *types.Stat {
	st := &types.Stat{Path: string(s.Path), Mode: s.Mode, Uid: s.Uid, Gid: s.Gid, Size: s.Size, ModTime: s.ModTime, Linkname: string(s.Linkname), Devmajor: s.Devmajor, Devminor: s.Devminor}
	if len(s.XKeys) > 0 || s.EmptyMap {
		st.Xattrs = map[string][]byte{}
	}
	if reverse {
		for i := len(s.XKeys) - 1; i >= 0; i-- {
			st.Xattrs[string(s.XKeys[i])] = append([]byte{}, s.XVals[i]...)
		}
	} else {
		for i := range s.XKeys {
			st.Xattrs[string(s.XKeys[i])] = append([]byte{}, s.XVals[i]...)
		}
	}
	return st
}

func (p *c20Packet) build(reverse bool) *types.Packet {
	pk := &types.Packet{Type: types.Packet_PacketType(p.Type), ID: p.ID}
	if !p.NilData {
		pk.Data = append([]byte{}, p.Data...)
	}
	if p.Stat != nil {
		pk.Stat = p.Stat.build(reverse)
	}
	return pk
}

var c20Strings = []string{"", "a", "a/b", "dir/file.txt", "é", "日本/語", "\x00", "a\x00b", "with space", `back\slash`, "\xff", "a\xffb", "\xe6\x97", "\xc3(", "..", "../x"}

func genC20String(t *rapid.T, label string) string {
	switch rapid.IntRange(0, 9).Draw(t, label+"c") {
	case 0, 1, 2, 3, 4, 5:
		return rapid.SampledFrom(c20Strings).Draw(t, label)
	case 6:
		return string(rapid.SliceOfN(rapid.Byte(), 0, 40).Draw(t, label+"b"))
	case 7:
		return rapid.StringN(0, 30, 60).Draw(t, label+"u")
	case 8:
		n := rapid.SampledFrom([]int{127, 128, 129, 255, 300, 16383, 16384, 40000}).Draw(t, label+"n")
		return string(bytes.Repeat([]byte("p"), n))
	}
	return ""
}

var c20I64 = []int64{0, 1, -1, 127, 128, 255, 1 << 31, -(1 << 31), 1<<63 - 1, -(1 << 63), 1_700_000_000_123_456_789, 1 << 40}
var c20U32 = []uint32{0, 1, 127, 128, 0o644, 0o100644, 1<<31 | 0o755, 1<<32 - 1, 1 << 27, 65534, 16384}

func genC20I64(t *rapid.T, l string) int64 {
	if rapid.Bool().Draw(t, l+"p") {
		return rapid.SampledFrom(c20I64).Draw(t, l)
	}
	return rapid.Int64().Draw(t, l+"r")
}
func genC20U32(t *rapid.T, l string) uint32 {
	if rapid.Bool().Draw(t, l+"p") {
		return rapid.SampledFrom(c20U32).Draw(t, l)
	}
	return rapid.Uint32().Draw(t, l+"r")
}

func genC20Stat(t *rapid.T, l string) *c20Stat {
	s := &c20Stat{}
	if rapid.IntRange(0, 9).Draw(t, l+"empty") == 0 {
		return s
	}
	s.Path = h.BStr(genC20String(t, l+"path"))
	s.Mode = genC20U32(t, l+"mode")
	s.Uid = genC20U32(t, l+"uid")
	s.Gid = genC20U32(t, l+"gid")
	s.Size = genC20I64(t, l+"size")
	s.ModTime = genC20I64(t, l+"mt")
	if rapid.Bool().Draw(t, l+"haslink") {
		s.Linkname = h.BStr(genC20String(t, l+"link"))
	}
	s.Devmajor = genC20I64(t, l+"maj")
	s.Devminor = genC20I64(t, l+"min")
	n := rapid.SampledFrom([]int{0, 0, 1, 2, 3, 8}).Draw(t, l+"nx")
	seen := map[string]bool{}
	for i := 0; i < n; i++ {
		k := rapid.SampledFrom([]string{"user.k", "", "security.selinux", "trusted.overlay.opaque", "k\x00", "user.\xff", "a", "b", "c", "d", "e", "f", "g", "user.long"}).Draw(t, l+"xk")
		if seen[k] {
			continue
		}
		seen[k] = true
		v := rapid.SampledFrom([][]byte{{}, []byte("v"), []byte("a\x00b"), []byte("\xff\xfe"), bytes.Repeat([]byte("x"), 300), bytes.Repeat([]byte("y"), 33000)}).Draw(t, l+"xv")
		s.XKeys = append(s.XKeys, h.BStr(k))
		s.XVals = append(s.XVals, v)
	}
	if n == 0 {
		s.EmptyMap = rapid.IntRange(0, 4).Draw(t, l+"em") == 0
	}
	return s
}

func genC20Packet(t *rapid.T, l string) *c20Packet {
	p := &c20Packet{}
	p.Type = rapid.SampledFrom([]int32{0, 1, 2, 3, 4, 0, 2, 5, 127, 128, -1, 1<<31 - 1}).Draw(t, l+"type")
	p.ID = genC20U32(t, l+"id")
	switch rapid.IntRange(0, 6).Draw(t, l+"dk") {
	case 0:
		p.NilData = true
	case 1:
		p.Data = []byte{}
	case 2:
		p.Data = rapid.SliceOfN(rapid.Byte(), 1, 64).Draw(t, l+"data")
	case 3:
		n := rapid.SampledFrom([]int{127, 128, 16383, 16384, 32764, 32768, 32769, 40000, 70000}).Draw(t, l+"dn")
		p.Data = h.Content(uint32(n), n)
	case 4:
		p.NilData = true
	default:
		p.Data = []byte("payload")
	}
	if rapid.IntRange(0, 2).Draw(t, l+"hasstat") != 0 {
		p.Stat = genC20Stat(t, l+"st")
	}
	return p
}

func validUTF8Stat(s *c20Stat) bool {
	if s == nil {
		return true
	}
	if !utf8.ValidString(string(s.Path)) || !utf8.ValidString(string(s.Linkname)) {
		return false
	}
	for _, k := range s.XKeys {
		if !utf8.ValidString(string(k)) {
			return false
		}
	}
	return true
}

// fieldwise equality that treats nil and empty slices/maps as equal (proto3
// does not distinguish them on the wire) but nothing else.
func statEq(a, b *types.Stat) error {
	if (a == nil) != (b == nil) {
		return fmt.Errorf("stat nil mismatch")
	}
	if a == nil {
		return nil
	}
	if a.Path != b.Path || a.Mode != b.Mode || a.Uid != b.Uid || a.Gid != b.Gid || a.Size != b.Size || a.ModTime != b.ModTime ||
		a.Linkname != b.Linkname || a.Devmajor != b.Devmajor || a.Devminor != b.Devminor {
		return fmt.Errorf("stat scalar fields differ: %+v vs %+v", abbrevStat(a), abbrevStat(b))
	}
	if len(a.Xattrs) != len(b.Xattrs) {
		return fmt.Errorf("xattr count %d vs %d", len(a.Xattrs), len(b.Xattrs))
	}
	for k, v := range a.Xattrs {
		w, ok := b.Xattrs[k]
		if !ok || !bytes.Equal(v, w) {
			return fmt.Errorf("xattr %q differs", k)
		}
	}
	return nil
}

func abbrevStat(s *types.Stat) string {
	return fmt.Sprintf("{path=%.40q mode=%#o uid=%d gid=%d size=%d mtime=%d link=%.40q dev=%d:%d nx=%d}", s.Path, s.Mode, s.Uid, s.Gid, s.Size, s.ModTime, s.Linkname, s.Devmajor, s.Devminor, len(s.Xattrs))
}

func packetEq(a, b *types.Packet) error {
	if a.Type != b.Type || a.ID != b.ID {
		return fmt.Errorf("type/id differ: %v/%d vs %v/%d", a.Type, a.ID, b.Type, b.ID)
	}
	if !bytes.Equal(a.Data, b.Data) {
		return fmt.Errorf("data differs (len %d vs %d)", len(a.Data), len(b.Data))
	}
	// a present-but-empty Stat is distinguishable on the wire from an absent one
	if (a.Stat == nil) != (b.Stat == nil) {
		return fmt.Errorf("stat presence differs")
	}
	return statEq(a.Stat, b.Stat)
}

type c20ValueCase struct {
	P *c20Packet `json:"packet"`
}

func c20CheckValue(env *h.Env, c *c20ValueCase) error {
	p := c.P.build(false)
	valid := validUTF8Stat(c.P.Stat)
	if !valid {
		env.Class("invalid-utf8")
	}
	if c.P.Stat != nil && len(c.P.Stat.XKeys) > 0 && c.P.Type != 0 && (len(c.P.Data) > 0) {
		env.NonTrivial()
	}
	if len(c.P.Data) > 32768 {
		env.Class("data>32KiB")
		env.NonTrivial()
	}
	if c.P.Stat != nil && (c.P.Stat.Size < 0 || c.P.Stat.ModTime < 0) {
		env.Class("negative-int")
		env.NonTrivial()
	}
	// 1. VT round trip
	enc, err := p.MarshalVT()
	if err != nil {
		return fmt.Errorf("MarshalVT: %v", err)
	}
	if p.SizeVT() != len(enc) || p.Size() != len(enc) {
		return fmt.Errorf("SizeVT %d / Size %d != len(MarshalVT) %d", p.SizeVT(), p.Size(), len(enc))
	}
	var q types.Packet
	if err := q.UnmarshalVT(enc); err != nil {
		return fmt.Errorf("UnmarshalVT of MarshalVT output: %v", err)
	}
	if err := packetEq(p, &q); err != nil {
		return fmt.Errorf("VT round trip: %v", err)
	}
	if !q.EqualVT(p) && !(p.Stat != nil && p.Stat.Xattrs != nil && len(p.Stat.Xattrs) == 0) && !(p.Data != nil && len(p.Data) == 0) {
		// EqualVT distinguishes nothing that the wire cannot carry except nil-vs-empty
		return fmt.Errorf("EqualVT false after VT round trip")
	}
	// wrappers used by the byte stream
	enc2, err := p.Marshal()
	if err != nil {
		return fmt.Errorf("Marshal: %v", err)
	}
	var q2 types.Packet
	if err := q2.Unmarshal(enc2); err != nil {
		return fmt.Errorf("Unmarshal(Marshal()): %v", err)
	}
	if err := packetEq(p, &q2); err != nil {
		return fmt.Errorf("Marshal/Unmarshal wrapper round trip: %v", err)
	}
	// aliasing: Unmarshal must copy out of its input
	scratch := append([]byte{}, enc2...)
	var q3 types.Packet
	if err := q3.Unmarshal(scratch); err != nil {
		return fmt.Errorf("Unmarshal: %v", err)
	}
	for i := range scratch {
		scratch[i] ^= 0xA5
	}
	if err := packetEq(p, &q3); err != nil {
		return fmt.Errorf("decoded packet aliases its input buffer: %v", err)
	}
	// 2. the strict (field-ordered) encoder. Byte-level determinism across map
	// iteration order is NOT part of the property (and the generated code does not
	// sort map keys), so only the decoded value is compared.
	s1, err := p.MarshalVTStrict()
	if err != nil {
		return fmt.Errorf("MarshalVTStrict: %v", err)
	}
	if len(s1) != len(enc) {
		return fmt.Errorf("MarshalVTStrict length %d != MarshalVT length %d", len(s1), len(enc))
	}
	var q4 types.Packet
	if err := q4.UnmarshalVT(s1); err != nil {
		return fmt.Errorf("UnmarshalVT(strict): %v", err)
	}
	if err := packetEq(p, &q4); err != nil {
		return fmt.Errorf("strict round trip: %v", err)
	}
	// MarshalTo into a caller's buffer: exactly sized, and longer than needed (a pooled
	// scratch buffer): the encoding is the first n bytes
	for _, extra := range []int{0, 1, 64} {
		buf := bytes.Repeat([]byte{0xAA}, len(enc)+extra)
		n, err := p.MarshalTo(buf)
		if err != nil || n != len(enc) {
			return fmt.Errorf("MarshalTo(buffer of %d+%d): n=%d err=%v, Marshal gives %d bytes", len(enc), extra, n, err, len(enc))
		}
		var q5 types.Packet
		if err := q5.UnmarshalVT(buf[:n]); err != nil {
			return fmt.Errorf("MarshalTo(buffer of %d+%d): the first n bytes do not decode: %v", len(enc), extra, err)
		}
		if err := packetEq(p, &q5); err != nil {
			return fmt.Errorf("MarshalTo(buffer of %d+%d) round trip: %v", len(enc), extra, err)
		}
	}
	// Stat alone, including the sized-buffer form the receiver uses for the listing
	if p.Stat != nil {
		n := p.Stat.SizeVT()
		buf := make([]byte, n)
		if m, err := p.Stat.MarshalToSizedBufferVT(buf); err != nil || m != n {
			return fmt.Errorf("Stat.MarshalToSizedBufferVT: n=%d m=%d err=%v", n, m, err)
		}
		var st types.Stat
		if err := st.UnmarshalVT(buf); err != nil {
			return fmt.Errorf("Stat.UnmarshalVT: %v", err)
		}
		if err := statEq(p.Stat, &st); err != nil {
			return fmt.Errorf("Stat round trip: %v", err)
		}
		sb, err := p.Stat.Marshal()
		if err != nil {
			return fmt.Errorf("Stat.Marshal: %v", err)
		}
		var st2 types.Stat
		if err := st2.Unmarshal(sb); err != nil {
			return fmt.Errorf("Stat.Unmarshal: %v", err)
		}
		if err := statEq(p.Stat, &st2); err != nil {
			return fmt.Errorf("Stat wrapper round trip: %v", err)
		}
		if cl := p.Stat.Clone(); statEq(p.Stat, cl) != nil {
			return fmt.Errorf("Stat.Clone differs")
		}
	}
	// 3/4. cross-codec, both directions
	var g types.Packet
	gerr := proto.Unmarshal(enc, &g)
	if gerr == nil {
		if err := packetEq(p, &g); err != nil {
			return fmt.Errorf("VT-encoded value decodes differently with the generic runtime: %v", err)
		}
	}
	genc, merr := proto.Marshal(p)
	if merr == nil {
		var v types.Packet
		if err := v.UnmarshalVT(genc); err != nil {
			return fmt.Errorf("generic-encoded value rejected by UnmarshalVT: %v", err)
		}
		if err := packetEq(p, &v); err != nil {
			return fmt.Errorf("generic-encoded value decodes differently with the VT codec: %v", err)
		}
	}
	if gerr != nil || merr != nil {
		if !valid {
			return env.Known("wire-invalid-utf8-generic-runtime", "value with a non-UTF-8 string round-trips with the VT codec but the generic runtime refuses it (unmarshal: %v, marshal: %v)", gerr, merr)
		}
		return fmt.Errorf("generic runtime refuses a value the VT codec accepts: unmarshal: %v marshal: %v", gerr, merr)
	}
	return nil
}

// ------------------------------------------------------------------ stream

type c20StreamCase struct {
	Packets []*c20Packet `json:"packets"`
	Frag    []int        `json:"frag"` // read sizes, cycled
	// Reuse: one Packet value is re-filled field by field and sent again (its
	// size is also asked for in between), as a caller that recycles its messages does
	Reuse bool `json:"reuse,omitempty"`
	// Other: a second stream of the same process whose packets (large DATA frames)
	// are received in the middle of this stream's fragmented reads; FreshPool: the
	// process-wide buffer pool is emptied (two garbage collections) first
	Other     []int `json:"other,omitempty"` // payload sizes of the other stream's packets
	FreshPool bool  `json:"fresh_pool,omitempty"`
	// Boundary > 0: the first packet is a DATA packet whose *encoding* is exactly
	// this many bytes long (around the 32 KiB pooled buffer, with and without the
	// 4-byte frame prefix), sent with the process-wide buffer pool emptied
	Boundary int `json:"boundary,omitempty"`
	// EOFWithData: the reader hands out the last bytes together with io.EOF
	EOFWithData bool `json:"eof_with_data,omitempty"`
	// RecvReuse: the receiving side uses one Packet value, reset before every RecvMsg
	// (as the library's own loops do); Unknown: the first frame additionally carries a
	// field the schema does not know (a newer peer), appended by hand
	RecvReuse bool `json:"recv_reuse,omitempty"`
	Unknown   bool `json:"unknown,omitempty"`
}

type fragReader struct {
	r       io.Reader
	plan    []int
	i       int
	between func() // called after every fragment that was handed out
}

func (f *fragReader) Read(p []byte) (int, error) {
	n := len(p)
	if len(f.plan) > 0 {
		k := f.plan[f.i%len(f.plan)]
		f.i++
		if k < n {
			n = k
		}
	}
	if n == 0 && len(p) > 0 {
		n = 1
	}
	k, err := f.r.Read(p[:n])
	if f.between != nil && k > 0 {
		f.between()
	}
	return k, err
}

func genC20Stream(t *rapid.T) *c20StreamCase {
	n := rapid.IntRange(1, 8).Draw(t, "n")
	c := &c20StreamCase{}
	for i := 0; i < n; i++ {
		if rapid.IntRange(0, 5).Draw(t, fmt.Sprintf("empty%d", i)) == 0 {
			c.Packets = append(c.Packets, &c20Packet{NilData: true}) // encodes to zero bytes
			continue
		}
		c.Packets = append(c.Packets, genC20Packet(t, fmt.Sprintf("p%d.", i)))
	}
	switch rapid.IntRange(0, 4).Draw(t, "fragmode") {
	case 0:
		c.Frag = []int{1}
	case 1:
		c.Frag = nil // whole reads
	case 2:
		c.Frag = rapid.SliceOfN(rapid.IntRange(1, 9), 1, 6).Draw(t, "frag")
	case 3:
		c.Frag = rapid.SliceOfN(rapid.SampledFrom([]int{1, 2, 3, 4, 5, 7, 4096, 32767, 32768, 32769, 100000}), 1, 5).Draw(t, "frag2")
	default:
		c.Frag = []int{3, 1 << 20}
	}
	c.Reuse = rapid.IntRange(0, 3).Draw(t, "reuse") == 0
	if rapid.IntRange(0, 3).Draw(t, "other") == 0 {
		c.Other = rapid.SliceOfN(rapid.SampledFrom([]int{10, 32768, 40000, 70000}), 1, 5).Draw(t, "othersizes")
		c.FreshPool = rapid.Bool().Draw(t, "freshpool")
	}
	c.EOFWithData = rapid.IntRange(0, 2).Draw(t, "eofwithdata") == 0
	if rapid.IntRange(0, 2).Draw(t, "recvreuse") == 0 {
		c.RecvReuse = true
		c.Unknown = rapid.Bool().Draw(t, "unknown")
	}
	if rapid.IntRange(0, 5).Draw(t, "boundary") == 0 {
		c.Boundary = rapid.IntRange(32768-9, 32768+5).Draw(t, "boundarysize")
	}
	return c
}

func c20CheckStream(env *h.Env, c *c20StreamCase) error {
	var wire bytes.Buffer
	st := util.NewProtoStream(context.Background(), nil, &wire)
	var own bytes.Buffer
	var sent []*types.Packet
	big := false
	recycled := &types.Packet{}
	var built []*types.Packet
	if c.Boundary > 0 {
		bp := &types.Packet{Type: types.PACKET_DATA, ID: 7, Data: make([]byte, c.Boundary)}
		for len(bp.Data) > 0 && bp.SizeVT() > c.Boundary {
			bp.Data = bp.Data[:len(bp.Data)-1]
		}
		for i := range bp.Data {
			bp.Data[i] = byte(i * 7)
		}
		built = append(built, bp)
		env.Class("encoding-at-the-pooled-buffer-size")
		runtime.GC()
		runtime.GC()
	}
	for _, mp := range c.Packets {
		built = append(built, mp.build(false))
	}
	for _, p := range built {
		sent = append(sent, p)
		if c.Reuse {
			recycled.Type, recycled.Stat, recycled.ID, recycled.Data = p.Type, p.Stat, p.ID, p.Data
			_ = recycled.Size()
			p = recycled
		}
		if err := func() (err error) {
			defer func() {
				if r := recover(); r != nil {
					err = fmt.Errorf("SendMsg panicked: %v", r)
				}
			}()
			return st.SendMsg(p)
		}(); err != nil {
			return fmt.Errorf("protoStream.SendMsg: %v", err)
		}
		enc, _ := sent[len(sent)-1].MarshalVT()
		var hd [4]byte
		binary.BigEndian.PutUint32(hd[:], uint32(len(enc)))
		own.Write(hd[:])
		own.Write(enc)
		if len(enc) > 32768 {
			big = true
		}
	}
	// the frames must be a 4-byte big-endian length followed by a valid encoding
	if wire.Len() != own.Len() {
		return fmt.Errorf("stream wrote %d bytes, reference framing is %d bytes", wire.Len(), own.Len())
	}
	splitsHeader := false
	for _, k := range c.Frag {
		if k < 4 {
			splitsHeader = true
		}
	}
	if splitsHeader || big {
		env.NonTrivial()
	}
	if big {
		env.Class("packet>32KiB")
	}
	if c.Reuse && len(c.Packets) > 1 {
		env.Class("recycled-packet-value")
		env.NonTrivial()
	}
	if splitsHeader {
		env.Class("header-split")
	}
	var frameLens []int
	for _, p := range sent {
		enc, _ := p.MarshalVT()
		frameLens = append(frameLens, len(enc))
	}
	stream := wire.Bytes()
	if c.Unknown {
		// a frame written by a peer that knows one more field (number 15, varint)
		up := &types.Packet{Type: types.PACKET_DATA, ID: 5, Data: []byte("from a newer peer")}
		enc, _ := up.MarshalVT()
		enc = append(enc, 0x78, 0x01)
		var hd [4]byte
		binary.BigEndian.PutUint32(hd[:], uint32(len(enc)))
		stream = append(append(append([]byte{}, hd[:]...), enc...), stream...)
		sent = append([]*types.Packet{up}, sent...)
		frameLens = append([]int{len(enc)}, frameLens...)
		env.Class("frame-with-an-unknown-field")
	}
	fr := &fragReader{r: bytes.NewReader(stream), plan: c.Frag}
	// a second, independent stream whose frames are received between the fragments of this one
	var otherSent, otherGot []*types.Packet
	if len(c.Other) > 0 {
		env.Class("two-streams-interleaved")
		env.NonTrivial()
		var ow bytes.Buffer
		os := util.NewProtoStream(context.Background(), nil, &ow)
		for i, n := range c.Other {
			p := &types.Packet{Type: types.PACKET_DATA, ID: uint32(i + 1), Data: bytes.Repeat([]byte{byte('A' + i)}, n)}
			otherSent = append(otherSent, p)
			if err := os.SendMsg(p); err != nil {
				return fmt.Errorf("protoStream.SendMsg (second stream): %v", err)
			}
		}
		or := util.NewProtoStream(context.Background(), bytes.NewReader(ow.Bytes()), nil)
		if c.FreshPool {
			runtime.GC()
			runtime.GC()
		}
		// the second stream takes its first frame before the first one starts
		first := &types.Packet{}
		if err := or.RecvMsg(first); err != nil {
			return fmt.Errorf("RecvMsg (second stream): %v", err)
		}
		otherGot = append(otherGot, first)
		calls := 0
		fr.between = func() {
			calls++
			if calls%3 != 0 || len(otherGot) >= len(otherSent) {
				return
			}
			p := &types.Packet{}
			if err := or.RecvMsg(p); err == nil {
				otherGot = append(otherGot, p)
			}
		}
		defer func() { fr.between = nil }()
	}
	var rd io.Reader = fr
	if c.EOFWithData {
		rd = iotest.DataErrReader(fr)
		env.Class("reader-returns-eof-with-data")
	}
	rs := util.NewProtoStream(context.Background(), rd, nil)
	var got []*types.Packet
	reused := &types.Packet{}
	for i := 0; ; i++ {
		p := &types.Packet{}
		if c.RecvReuse {
			p = reused
			p.ResetVT()
		}
		err := rs.RecvMsg(p)
		if err == io.EOF {
			break
		}
		if err != nil {
			return fmt.Errorf("RecvMsg #%d: %v", i, err)
		}
		if c.RecvReuse {
			// what one RecvMsg leaves in the value is that frame and nothing else
			if i < len(frameLens) && p.SizeVT() != frameLens[i] {
				return fmt.Errorf("RecvMsg #%d into a reset Packet value: the value re-encodes to %d bytes, the frame had %d (something of an earlier packet is still in it)", i, p.SizeVT(), frameLens[i])
			}
			p = p.CloneVT()
		}
		got = append(got, p)
		if len(got) > len(sent)+2 {
			break
		}
	}
	if len(got) != len(sent) {
		return fmt.Errorf("received %d packets, sent %d", len(got), len(sent))
	}
	// compared only after the last RecvMsg: aliasing of the pooled buffer shows as corruption
	for i := range sent {
		if err := packetEq(sent[i], got[i]); err != nil {
			return fmt.Errorf("packet %d of %d differs after the stream was drained: %v", i, len(sent), err)
		}
	}
	for i := range otherGot {
		if err := packetEq(otherSent[i], otherGot[i]); err != nil {
			return fmt.Errorf("second stream: packet %d of %d differs after both streams were read: %v", i, len(otherSent), err)
		}
	}
	return nil
}

// ------------------------------------------------------------ arbitrary bytes

type c20BytesCase struct {
	Data []byte `json:"data"`
	Frag []int  `json:"frag"`
}

var c20Hostile = [][]byte{
	{0xff, 0xff, 0xff, 0xff},
	{0xff, 0xff, 0xff, 0xff, 0x0f},
	{0x7f, 0xff, 0xff, 0xff, 1, 2, 3},
	{0x00, 0x10, 0x00, 0x00, 0x0a},
	{0x0a, 0xff, 0xff, 0xff, 0xff, 0x0f},                               // string length 4 GiB
	{0x12, 0xff, 0xff, 0xff, 0xff, 0xff, 0xff, 0xff, 0xff, 0xff, 0x01}, // embedded message max varint
	{0x52, 0x05, 0x0a, 0xff, 0xff, 0xff, 0x7f},                         // map entry with truncated key
	{0x22, 0xff, 0xff, 0xff, 0xff, 0x07},                               // data length 2 GiB
	{0x08, 0xff, 0xff, 0xff, 0xff, 0xff, 0xff, 0xff, 0xff, 0xff, 0xff, 0xff},
	{0x1b}, {0x0c}, {0x00}, {0x78}, {0xf8, 0xff, 0xff, 0xff, 0x0f, 0x01},
	// length varints within a few bytes of MaxInt64 / MaxUint64 for every length-delimited field
	{0x22, 0xff, 0xff, 0xff, 0xff, 0xff, 0xff, 0xff, 0xff, 0x7f},
	{0x22, 0xf7, 0xff, 0xff, 0xff, 0xff, 0xff, 0xff, 0xff, 0x7f},
	{0x22, 0xff, 0xff, 0xff, 0xff, 0xff, 0xff, 0xff, 0xff, 0xff, 0x01},
	{0x12, 0xff, 0xff, 0xff, 0xff, 0xff, 0xff, 0xff, 0xff, 0x7f},
	{0x0a, 0xff, 0xff, 0xff, 0xff, 0xff, 0xff, 0xff, 0xff, 0x7f},
	{0x3a, 0xff, 0xff, 0xff, 0xff, 0xff, 0xff, 0xff, 0xff, 0x7f},
	{0x52, 0xff, 0xff, 0xff, 0xff, 0xff, 0xff, 0xff, 0xff, 0x7f},
	{0x12, 0x0b, 0x0a, 0xff, 0xff, 0xff, 0xff, 0xff, 0xff, 0xff, 0xff, 0x7f, 0x00},
	{0x12, 0x0d, 0x52, 0x0b, 0x0a, 0xff, 0xff, 0xff, 0xff, 0xff, 0xff, 0xff, 0xff, 0x7f, 0x00},
	{0x12, 0x0d, 0x52, 0x0b, 0x12, 0xff, 0xff, 0xff, 0xff, 0xff, 0xff, 0xff, 0xff, 0x7f, 0x00},
	{0x7a, 0xff, 0xff, 0xff, 0xff, 0xff, 0xff, 0xff, 0xff, 0x7f}, // unknown length-delimited field
}

func genC20Bytes(t *rapid.T) *c20BytesCase {
	c := &c20BytesCase{}
	switch rapid.IntRange(0, 4).Draw(t, "mode") {
	case 0:
		c.Data = rapid.SliceOfN(rapid.Byte(), 0, 64).Draw(t, "raw")
	case 1:
		c.Data = append([]byte{}, rapid.SampledFrom(c20Hostile).Draw(t, "hostile")...)
		c.Data = append(c.Data, rapid.SliceOfN(rapid.Byte(), 0, 8).Draw(t, "tail")...)
	default:
		enc, _ := genC20Packet(t, "p.").build(false).MarshalVT()
		nm := rapid.IntRange(0, 3).Draw(t, "nm")
		for i := 0; i < nm && len(enc) > 0; i++ {
			j := rapid.IntRange(0, len(enc)-1).Draw(t, "pos")
			switch rapid.IntRange(0, 3).Draw(t, "mut") {
			case 0:
				enc[j] = rapid.Byte().Draw(t, "b")
			case 1:
				enc = enc[:j]
			case 2:
				enc[j] |= 0x80
			case 3:
				enc = append(enc[:j], append(append([]byte{}, rapid.SampledFrom(c20Hostile).Draw(t, "ins")...), enc[j:]...)...)
			}
		}
		c.Data = enc
	}
	c.Frag = rapid.SliceOfN(rapid.IntRange(1, 9), 0, 3).Draw(t, "frag")
	return c
}

func allocDuring(f func()) uint64 {
	var a, b runtime.MemStats
	runtime.ReadMemStats(&a)
	f()
	runtime.ReadMemStats(&b)
	return b.TotalAlloc - a.TotalAlloc
}

func c20DecodeBytes(data []byte, frag []int) (violation error, known string) {
	limit := uint64(64*len(data) + 64<<10)
	var perr any
	var st types.Stat
	var pk types.Packet
	var e1, e2 error
	got := allocDuring(func() {
		defer func() { perr = recover() }()
		e1 = st.UnmarshalVT(data)
		e2 = pk.UnmarshalVT(data)
	})
	if perr != nil {
		return fmt.Errorf("UnmarshalVT panicked on %.64x: %v", data, perr), ""
	}
	if got > limit {
		return fmt.Errorf("UnmarshalVT allocated %d bytes for a %d-byte input (limit %d)", got, len(data), limit), ""
	}
	// whatever decodes must itself round-trip
	if e1 == nil {
		enc, err := st.MarshalVT()
		var st2 types.Stat
		if err != nil || st2.UnmarshalVT(enc) != nil || !st2.EqualVT(&st) {
			return fmt.Errorf("decoded Stat does not round-trip (input %.64x)", data), ""
		}
	}
	if e2 == nil {
		enc, err := pk.MarshalVT()
		var pk2 types.Packet
		if err != nil || pk2.UnmarshalVT(enc) != nil || !pk2.EqualVT(&pk) {
			return fmt.Errorf("decoded Packet does not round-trip (input %.64x)", data), ""
		}
	}
	// the same bytes as a length-prefixed stream
	var rerr error
	got = allocDuring(func() {
		defer func() { perr = recover() }()
		rs := util.NewProtoStream(context.Background(), &fragReader{r: bytes.NewReader(data), plan: frag}, nil)
		for i := 0; i < 1000; i++ {
			var p types.Packet
			if rerr = rs.RecvMsg(&p); rerr != nil {
				break
			}
		}
	})
	if perr != nil {
		return fmt.Errorf("RecvMsg panicked on %.64x: %v", data, perr), ""
	}
	if got > limit {
		return nil, fmt.Sprintf("RecvMsg allocated %d bytes for a %d-byte stream starting %x (limit %d)", got, len(data), data[:min(len(data), 16)], limit)
	}
	return nil, ""
}

func c20CheckBytes(env *h.Env, c *c20BytesCase) error {
	if len(c.Data) >= 4 {
		env.NonTrivial()
	}
	v, over := c20DecodeBytes(c.Data, c.Frag)
	if v != nil {
		return v
	}
	if over != "" {
		return env.Known("protostream-allocates-header-length", "%s", over)
	}
	return nil
}

func TestC20(t *testing.T) {
	r := h.NewRunner("C20")
	defer r.Finish(t)
	h.RunWith(t, r, "value", func(t *rapid.T) *c20ValueCase { return &c20ValueCase{P: genC20Packet(t, "")} }, c20CheckValue)
	if t.Failed() {
		return
	}
	t.Run("stream", func(t *testing.T) { h.RunWith(t, r, "stream", genC20Stream, c20CheckStream) })
	t.Run("bytes", func(t *testing.T) { h.RunWith(t, r, "bytes", genC20Bytes, c20CheckBytes) })
}

func c20Seeds(f *testing.F, frag bool) {
	for _, hb := range c20Hostile {
		if frag {
			f.Add(hb, byte(1))
		} else {
			f.Add(hb)
		}
	}
	pk := &types.Packet{Type: types.PACKET_STAT, ID: 7, Data: []byte("xyz"), Stat: &types.Stat{Path: "a/b", Mode: 0o644, Size: 3, ModTime: 5, Linkname: "l", Xattrs: map[string][]byte{"user.k": []byte("v")}}}
	enc, _ := pk.MarshalVT()
	senc, _ := pk.Stat.MarshalVT()
	var framed bytes.Buffer
	var hd [4]byte
	binary.BigEndian.PutUint32(hd[:], uint32(len(enc)))
	framed.Write(hd[:])
	framed.Write(enc)
	framed.Write([]byte{0, 0, 0, 0})
	if frag {
		f.Add(framed.Bytes(), byte(3))
		f.Add(enc, byte(2))
	} else {
		f.Add(enc)
		f.Add(senc)
	}
}

func FuzzC20StatUnmarshal(f *testing.F) {
	c20Seeds(f, false)
	f.Fuzz(func(t *testing.T, data []byte) {
		var st types.Stat
		limit := uint64(64*len(data) + 64<<10)
		var err error
		got := allocDuring(func() { err = st.UnmarshalVT(data) })
		if got > limit {
			t.Fatalf("Stat.UnmarshalVT allocated %d bytes for %d input bytes", got, len(data))
		}
		if err != nil {
			return
		}
		enc, merr := st.MarshalVT()
		var st2 types.Stat
		if merr != nil || st2.UnmarshalVT(enc) != nil || !st2.EqualVT(&st) {
			t.Fatalf("decoded Stat does not round-trip")
		}
		if utf8.ValidString(st.Path) && utf8.ValidString(st.Linkname) && validKeys(st.Xattrs) {
			var g types.Stat
			if err := proto.Unmarshal(enc, &g); err != nil {
				t.Fatalf("generic runtime rejects a re-encoded valid-UTF-8 Stat: %v", err)
			}
			if statEq(&st, &g) != nil {
				t.Fatalf("generic runtime decodes a different Stat")
			}
		}
	})
}

func validKeys(m map[string][]byte) bool {
	for k := range m {
		if !utf8.ValidString(k) {
			return false
		}
	}
	return true
}

func FuzzC20PacketUnmarshal(f *testing.F) {
	c20Seeds(f, false)
	f.Fuzz(func(t *testing.T, data []byte) {
		var pk types.Packet
		limit := uint64(64*len(data) + 64<<10)
		var err error
		got := allocDuring(func() { err = pk.UnmarshalVT(data) })
		if got > limit {
			t.Fatalf("Packet.UnmarshalVT allocated %d bytes for %d input bytes", got, len(data))
		}
		if err != nil {
			return
		}
		enc, merr := pk.MarshalVT()
		var pk2 types.Packet
		if merr != nil || pk2.UnmarshalVT(enc) != nil || !pk2.EqualVT(&pk) {
			t.Fatalf("decoded Packet does not round-trip")
		}
	})
}

func FuzzC20ProtoStreamRecv(f *testing.F) {
	c20Seeds(f, true)
	known := h.NewRunner("C20").IsKnownClass("protostream-allocates-header-length")
	f.Fuzz(func(t *testing.T, data []byte, fr byte) {
		frag := []int{int(fr%9) + 1}
		if fr > 128 {
			frag = nil
		}
		if known && len(data) >= 4 && binary.BigEndian.Uint32(data[:4]) > uint32(64*len(data)+32<<10) {
			return // excluded by construction: listed known finding
		}
		limit := uint64(64*len(data) + 64<<10)
		got := allocDuring(func() {
			rs := util.NewProtoStream(context.Background(), &fragReader{r: bytes.NewReader(data), plan: frag}, nil)
			for i := 0; i < 1000; i++ {
				var p types.Packet
				if err := rs.RecvMsg(&p); err != nil {
					break
				}
			}
		})
		if got > limit {
			t.Fatalf("RecvMsg allocated %d bytes for a %d-byte stream", got, len(data))
		}
	})
}

var _ = os.Getenv
