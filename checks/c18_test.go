package checks

import (
	"context"
	"errors"
	"fmt"
	"io"
	gofs "io/fs"
	"os"
	"path"
	"path/filepath"
	"sort"
	"strings"
	"sync/atomic"
	"syscall"
	"testing"

	"github.com/moby/patternmatcher"
	"github.com/tonistiigi/fsutil"
	"pgregory.net/rapid"

	h "verif/harness"
)

// ---------------------------------------------------------------------------
// C18: following links yields a terminating, closed, minimal include set

type c18Case struct {
	Tree     *h.Tree  `json:"tree"`
	Requests []string `json:"requests"`
	MemSrc   bool     `json:"memsrc"`
}

var c18TreeCfg = h.TreeCfg{
	MaxEntries: 12, MaxDepth: 3, Names: []string{"a", "b", "c", "d", "l", "m", "w", "x", "$c", "-o", "d:x"},
	Kinds: []h.Kind{h.KFile, h.KFile, h.KSymlink, h.KSymlink, h.KSymlink},
	// names with surrounding blanks or glob characters cannot be written as include patterns
	SiblingSuffixes: []string{"-b", "-", ".", ".b", "0", "~", "+", ","},
	SymTargets:      []string{"a", "b", "d", "../a", "../b", "../../a", "/a", "/b/c", "/", ".", "..", "../..", "l", "m", "../l", "a/b", "d/x", "dangling", "/dangling/x", "c/../d", "../d/../a", "l/x", "self/x", "../../../..", "x", "/d:x", "d:x", "/a/d:x", "/d:x/a"},
}

func genC18(t *rapid.T) *c18Case {
	cfg := c18TreeCfg
	if rapid.IntRange(0, 7).Draw(t, "globnames") == 0 {
		cfg.Names = append(append([]string{}, cfg.Names...), "q?", "l[1]", "x*", "what?")
	}
	c := &c18Case{Tree: h.GenTree(t, cfg, "t")}
	n := rapid.IntRange(1, 4).Draw(t, "nreq")
	for i := 0; i < n; i++ {
		li := fmt.Sprintf("r%d.", i)
		var p string
		if len(c.Tree.Nodes) > 0 && rapid.IntRange(0, 5).Draw(t, li+"fromtree") != 0 {
			p = c.Tree.Nodes[rapid.IntRange(0, len(c.Tree.Nodes)-1).Draw(t, li+"node")].Path
		} else {
			p = rapid.SampledFrom([]string{"a", "l", "a/b", "missing", "l/x", ".", "/", "a/../b"}).Draw(t, li+"plain")
		}
		switch rapid.IntRange(0, 9).Draw(t, li+"sfx") {
		case 0:
			p += "/x"
		case 1:
			p += "/a/b"
		case 2:
			p += "/missing"
		case 3: // wildcard in the last component
			if i := strings.LastIndex(p, "/"); i >= 0 {
				p = p[:i] + "/*"
			} else {
				p = rapid.SampledFrom([]string{"*", "?", "[a-c]", "l*"}).Draw(t, li+"glob")
			}
		case 4: // wildcard in a middle component
			comps := strings.Split(p, "/")
			if len(comps) >= 2 {
				comps[rapid.IntRange(0, len(comps)-2).Draw(t, li+"mid")] = "*"
				p = strings.Join(comps, "/")
			}
		}
		if rapid.IntRange(0, 5).Draw(t, li+"abs") == 0 {
			p = "/" + p
		}
		c.Requests = append(c.Requests, p)
	}
	// steered shape: a directory is requested next to a link whose target lies inside
	// that directory and is itself a link leading out of it again - whatever was
	// resolved first must not hide what the second request still has to follow
	if rapid.IntRange(0, 5).Draw(t, "nested") == 0 {
		d := rapid.SampledFrom([]string{"a", "b", "d"}).Draw(t, "n.dir")
		inner := rapid.SampledFrom([]string{"l", "m", "x"}).Draw(t, "n.inner")
		top := rapid.SampledFrom([]string{"w", "-o", "$c", "l"}).Draw(t, "n.top")
		data := rapid.SampledFrom([]string{"c", "m", "x"}).Draw(t, "n.data")
		if top == d || data == d || data == top {
			top, data = "w", "c"
		}
		keep := c.Tree.Nodes[:0:0]
		for _, n := range c.Tree.Nodes {
			drop := false
			for _, q := range []string{d, top, data} {
				if n.Path == q || strings.HasPrefix(n.Path, q+"/") {
					drop = true
				}
			}
			if !drop {
				keep = append(keep, n)
			}
		}
		keep = append(keep,
			h.Node{Path: d, Kind: h.KDir, Perm: 0o755},
			h.Node{Path: d + "/" + inner, Kind: h.KSymlink, Perm: 0o777, Target: rapid.SampledFrom([]string{"/" + data, "../" + data}).Draw(t, "n.innertarget")},
			h.Node{Path: d + "/other", Kind: h.KFile, Perm: 0o644, Size: 3, Seed: 77},
			h.Node{Path: top, Kind: h.KSymlink, Perm: 0o777, Target: rapid.SampledFrom([]string{d + "/" + inner, "/" + d + "/" + inner, "./" + d + "/" + inner}).Draw(t, "n.toptarget")},
			h.Node{Path: data, Kind: h.KFile, Perm: 0o644, Size: 5, Seed: 78},
		)
		c.Tree.Nodes = keep
		c.Tree.Normalize()
		reqs := []string{d, top}
		if rapid.Bool().Draw(t, "n.swap") {
			reqs = []string{top, d}
		}
		if rapid.Bool().Draw(t, "n.keepothers") && len(c.Requests) > 0 {
			reqs = append(reqs, c.Requests[0])
		}
		c.Requests = reqs
	}
	// steered shape: a wildcard component below a followed link, matching a link
	if rapid.IntRange(0, 7).Draw(t, "wildbelowlink") == 0 {
		c.Tree = &h.Tree{Nodes: []h.Node{
			{Path: "cur", Kind: h.KSymlink, Perm: 0o777, Target: rapid.SampledFrom([]string{"pkg", "/pkg", "./pkg"}).Draw(t, "wb.cur")},
			{Path: "pkg", Kind: h.KDir, Perm: 0o755},
			{Path: "pkg/f1", Kind: h.KSymlink, Perm: 0o777, Target: rapid.SampledFrom([]string{"../store/data", "/store/data"}).Draw(t, "wb.f1")},
			{Path: "pkg/f2", Kind: h.KFile, Perm: 0o644, Size: 3, Seed: 5},
			{Path: "pkg/g", Kind: h.KFile, Perm: 0o644, Size: 3, Seed: 6},
			{Path: "store", Kind: h.KDir, Perm: 0o755},
			{Path: "store/data", Kind: h.KFile, Perm: 0o644, Size: 9, Seed: 7},
			{Path: "store/other", Kind: h.KFile, Perm: 0o644, Size: 9, Seed: 8},
		}}
		c.Tree.Normalize()
		c.Requests = []string{rapid.SampledFrom([]string{"cur/f*", "cur/f?", "/cur/*1", "cur/[ef]1"}).Draw(t, "wb.req")}
	}
	// steered shape: link names that contain a backslash, requested with a pattern that
	// spells the backslash escaped, right in front of a wildcard
	if rapid.IntRange(0, 9).Draw(t, "backslashwild") == 0 {
		tr := &h.Tree{Nodes: []h.Node{
			{Path: "dir", Kind: h.KDir, Perm: 0o755},
			{Path: `dir/rel\cur`, Kind: h.KSymlink, Perm: 0o777, Target: rapid.SampledFrom([]string{"../store/v1", "/store/v1"}).Draw(t, "bw.t1")},
			{Path: "dir/plain", Kind: h.KFile, Perm: 0o644, Size: 3, Seed: 5},
			{Path: `rel\top`, Kind: h.KSymlink, Perm: 0o777, Target: rapid.SampledFrom([]string{"store/other", "/store/other"}).Draw(t, "bw.t2")},
			{Path: "store", Kind: h.KDir, Perm: 0o755},
			{Path: "store/v1", Kind: h.KFile, Perm: 0o644, Size: 9, Seed: 7},
			{Path: "store/other", Kind: h.KFile, Perm: 0o644, Size: 9, Seed: 8},
		}}
		tr.Normalize()
		c.Tree = tr
		c.Requests = []string{rapid.SampledFrom([]string{`dir/rel\\*`, `rel\\*`, `dir/rel\\?ur`, `/dir/rel\\[a-c]ur`, `rel\\to?`}).Draw(t, "bw.req")}
	}
	// steered shape: a link whose own name is as long as a name can be (255 bytes)
	if rapid.IntRange(0, 11).Draw(t, "longlink") == 0 {
		long := strings.Repeat(rapid.SampledFrom([]string{"L", "m"}).Draw(t, "ll.c"), rapid.SampledFrom([]int{255, 255, 254, 200}).Draw(t, "ll.n"))
		tr := &h.Tree{Nodes: []h.Node{
			{Path: "dir", Kind: h.KDir, Perm: 0o755},
			{Path: "dir/" + long, Kind: h.KSymlink, Perm: 0o777, Target: rapid.SampledFrom([]string{"../store/v1", "/store/v1"}).Draw(t, "ll.t1")},
			{Path: long, Kind: h.KSymlink, Perm: 0o777, Target: rapid.SampledFrom([]string{"store/other", "/store/other", "dir"}).Draw(t, "ll.t2")},
			{Path: "store", Kind: h.KDir, Perm: 0o755},
			{Path: "store/v1", Kind: h.KFile, Perm: 0o644, Size: 9, Seed: 7},
			{Path: "store/other", Kind: h.KFile, Perm: 0o644, Size: 9, Seed: 8},
		}}
		tr.Normalize()
		c.Tree = tr
		c.Requests = []string{rapid.SampledFrom([]string{"dir/" + long, long, "dir/" + long[:1] + "*", long[:1] + "*", long + "/" + long}).Draw(t, "ll.req")}
	}
	// steered shape: one request that reads a few hundred links (no chain longer than
	// one hop): budgets and guards must count per chain, not per call
	if rapid.IntRange(0, 1999).Draw(t, "manylinks") == 0 {
		n := rapid.SampledFrom([]int{256, 260, 300}).Draw(t, "ml.n")
		tr := &h.Tree{Nodes: []h.Node{{Path: "bin", Kind: h.KDir, Perm: 0o755}, {Path: "lib", Kind: h.KDir, Perm: 0o755}, {Path: "lib/t", Kind: h.KFile, Perm: 0o644, Size: 2, Seed: 9}}}
		for i := 0; i < n; i++ {
			tr.Nodes = append(tr.Nodes, h.Node{Path: fmt.Sprintf("bin/m%03d", i), Kind: h.KSymlink, Perm: 0o777, Target: "../lib/t"})
		}
		tr.Normalize()
		c.Tree = tr
		c.Requests = []string{"bin/*"}
	}
	c.MemSrc = rapid.Bool().Draw(t, "memsrc")
	if len(c.Tree.Nodes) > 100 {
		c.MemSrc = false // the synthetic source re-indexes its tree on every Walk
	}
	return c
}

type countingFS struct {
	fs    fsutil.FS
	walks int64
	limit int64
}

func (c *countingFS) Walk(ctx context.Context, target string, fn gofs.WalkDirFunc) error {
	if atomic.AddInt64(&c.walks, 1) > c.limit {
		return fmt.Errorf("verif: more than %d Walk calls: resolution does not terminate", c.limit)
	}
	return c.fs.Walk(ctx, target, fn)
}
func (c *countingFS) Open(p string) (io.ReadCloser, error) { return c.fs.Open(p) }

func hasGlob(s string) bool { return strings.ContainsAny(s, "*?[") }

// expandRequest expands wildcard components against the model (component-wise
// glob); non-wildcard requests come back unchanged.
func expandRequest(tr *h.Tree, req string) []string {
	req = strings.Trim(path.Clean("/"+req), "/")
	if !hasGlob(req) {
		return []string{req}
	}
	var out []string
	rc := strings.Split(req, "/")
	// a wildcard in the last component only: the directory part is resolved like any
	// path (through links), the pattern is matched against the names in that directory
	if dirpart := strings.Join(rc[:len(rc)-1], "/"); len(rc) > 1 && !hasGlob(dirpart) {
		if r := h.ResolveIn(tr, dirpart, true); r.Exists {
			if d := tr.Index()[r.Final]; r.Final == "" || (d != nil && d.Kind == h.KDir) {
				for _, n := range tr.Nodes {
					if path.Dir(n.Path) == r.Final || (r.Final == "" && !strings.Contains(n.Path, "/")) {
						if m, err := filepath.Match(rc[len(rc)-1], path.Base(n.Path)); err == nil && m {
							out = append(out, dirpart+"/"+path.Base(n.Path))
						}
					}
				}
				return out
			}
		}
	}
	for _, n := range tr.Nodes {
		nc := strings.Split(n.Path, "/")
		if len(nc) != len(rc) {
			continue
		}
		ok := true
		for i := range rc {
			if m, err := filepath.Match(rc[i], nc[i]); err != nil || !m {
				ok = false
				break
			}
		}
		if ok {
			out = append(out, n.Path)
		}
	}
	return out
}

// covered: p equals an element, lies below one, or is matched by one used as an
// include pattern.
func covered(p string, res []string) bool {
	for _, e := range res {
		if p == e || strings.HasPrefix(p, e+"/") {
			return true
		}
		if hasGlob(e) {
			if pm, err := patternmatcher.New([]string{e}); err == nil {
				if m, _ := pm.MatchesOrParentMatches(p); m {
					return true
				}
			}
		}
	}
	return false
}

// lexicalDiffers: would cleaning the link target lexically (as the
// implementation does) lead somewhere else than resolving it component by
// component? Then a ".." follows a symlink component in the target.
func lexicalDiffers(tr *h.Tree, link string) bool {
	n := tr.Index()[link]
	if n == nil || n.Kind != h.KSymlink || !strings.Contains(n.Target, "..") {
		return false
	}
	// a ".." that follows a named component: lexical cleaning drops that
	// component (a symlink that is never read, or a directory that is never included)
	prevNamed := false
	for _, cm := range strings.Split(n.Target, "/") {
		switch cm {
		case "", ".":
		case "..":
			if prevNamed {
				return true
			}
		default:
			prevNamed = true
		}
	}
	var lex string
	if strings.HasPrefix(n.Target, "/") {
		lex = path.Clean(n.Target)
	} else {
		lex = path.Clean("/" + path.Join(path.Dir(link), n.Target))
	}
	lr := h.ResolveIn(tr, lex, true)
	cr := h.ResolveIn(tr, link, true)
	// same place through the same links? (cr additionally traverses `link` itself)
	ls, cs := map[string]bool{}, map[string]bool{}
	for _, l := range lr.Traversed {
		ls[l] = true
	}
	for _, l := range cr.Traversed {
		if l != link {
			cs[l] = true
		}
	}
	same := len(ls) == len(cs)
	for l := range cs {
		if !ls[l] {
			same = false
		}
	}
	return !same || lr.Final != cr.Final || lr.Exists != cr.Exists
}

func snapTree(s h.Snap) *h.Tree {
	tr := &h.Tree{}
	for _, p := range s.Paths() {
		e := s[p]
		tr.Nodes = append(tr.Nodes, h.Node{Path: p, Kind: e.Kind, Target: e.Target})
	}
	return tr
}

func c18Check(env *h.Env, c *c18Case) error {
	var base fsutil.FS
	srcDir := filepath.Join(env.Scratch, "src")
	if c.MemSrc {
		base = &h.MemFS{T: c.Tree}
	} else {
		if err := os.Mkdir(srcDir, 0o755); err != nil {
			return h.Infra(err)
		}
		if err := h.Materialise(c.Tree, srcDir); err != nil {
			return h.Infra(err)
		}
		var err error
		if base, err = fsutil.NewFS(srcDir); err != nil {
			return h.Infra(err)
		}
	}
	// entries whose own name contains glob characters cannot be expressed as include
	// patterns: for such trees only termination and the structural clauses are judged
	globNames := false
	for _, n := range c.Tree.Nodes {
		if hasGlob(n.Path) {
			globNames = true
		}
	}
	cfs := &countingFS{fs: base, limit: 10000}
	res, err := fsutil.FollowLinks(cfs, c.Requests)
	if err != nil {
		if strings.Contains(err.Error(), "does not terminate") {
			return fmt.Errorf("FollowLinks(%q) made more than %d Walk calls on a %d-entry tree: it does not terminate", c.Requests, cfs.limit, len(c.Tree.Nodes))
		}
		if globNames && errors.Is(err, syscall.ELOOP) {
			// a request with a wildcard in a middle component is kept as a literal path
			// (listed finding); when an entry really carries that name and is a cyclic
			// symlink, the literal lstat runs into the cycle inside the kernel
			for _, rq := range c.Requests {
				comps := strings.Split(strings.Trim(path.Clean("/"+rq), "/"), "/")
				for i, cm := range comps {
					if hasGlob(cm) && i < len(comps)-1 {
						return env.Known("followlinks-middle-wildcard-not-followed", "FollowLinks(%q) on a tree with an entry literally named like the middle wildcard component %q: %v", c.Requests, cm, err)
					}
				}
			}
		}
		return fmt.Errorf("FollowLinks(%q) failed: %v", c.Requests, err)
	}
	// structural clauses
	if !sort.StringsAreSorted(res) {
		return fmt.Errorf("FollowLinks(%q) = %q is not sorted", c.Requests, res)
	}
	for i, a := range res {
		for j, b := range res {
			if i != j && (a == b || strings.HasPrefix(b, a+"/")) {
				return fmt.Errorf("FollowLinks(%q) = %q: %q is inside %q", c.Requests, res, b, a)
			}
		}
		if a == "." || a == "" || strings.HasPrefix(a, "/") {
			return fmt.Errorf("FollowLinks(%q) = %q contains the root or an absolute element %q", c.Requests, res, a)
		}
	}
	if globNames {
		env.Class("glob-characters-in-names")
		return nil
	}
	// obligations from the reference resolver
	type oblig struct {
		req, exp string
		r        h.Resolved
	}
	var obs []oblig
	seenLinks := map[string]int{} // how many resolutions traversed a link
	rootReached := false
	multi, cycle, wild := false, false, false
	for _, req := range c.Requests {
		exps := expandRequest(c.Tree, req)
		if hasGlob(req) && len(exps) >= 2 {
			wild = true
		}
		for _, e := range exps {
			r := h.ResolveIn(c.Tree, e, true)
			obs = append(obs, oblig{req, e, r})
			if r.Exists && r.Final == "" {
				rootReached = true
			}
			if len(r.Traversed) >= 2 {
				multi = true
			}
			if r.Loop {
				cycle = true
			}
		}
	}
	if multi {
		env.Class("multi-hop")
	}
	if cycle {
		env.Class("cycle")
	}
	if wild {
		env.Class("wildcard-multi")
	}
	if multi || cycle || wild {
		env.NonTrivial()
	}
	classify := func(o oblig) string {
		// known root causes in followlinks.go, one classifier each
		comps := strings.Split(strings.Trim(path.Clean("/"+o.req), "/"), "/")
		for i, cm := range comps {
			if hasGlob(cm) && i < len(comps)-1 {
				return "followlinks-middle-wildcard-not-followed"
			}
		}
		for _, l := range o.r.Traversed {
			if lexicalDiffers(c.Tree, l) {
				return "followlinks-lexical-clean-of-target"
			}
		}
		dup := map[string]bool{}
		for _, l := range o.r.Traversed {
			if dup[l] || seenLinks[l] > 1 {
				return "followlinks-guard-keyed-by-link"
			}
			dup[l] = true
		}
		// another request with a wildcard may have visited these links through a
		// symlinked directory (an expansion the reference does not model) and tripped the same guard
		if len(o.r.Traversed) > 0 {
			for _, r := range c.Requests {
				if r != o.req && hasGlob(r) {
					return "followlinks-guard-keyed-by-link"
				}
			}
		}
		return ""
	}
	for _, o := range obs {
		seenOnce := map[string]bool{}
		for _, l := range o.r.Traversed {
			if !seenOnce[l] {
				seenOnce[l] = true
				seenLinks[l]++
			}
		}
	}
	if rootReached {
		env.Class("root-reached")
		if len(res) != 0 {
			// which request reaches the root?
			for _, o := range obs {
				if o.r.Exists && o.r.Final == "" {
					if cl := classify(o); cl != "" {
						return env.Known(cl, "request %q resolves to the root but FollowLinks(%q) = %q", o.req, c.Requests, res)
					}
					return fmt.Errorf("request %q resolves to the tree root, so the result must be empty, but FollowLinks(%q) = %q", o.req, c.Requests, res)
				}
			}
		}
		return nil // no filter at all: every obligation is trivially covered
	}
	if len(res) == 0 && len(obs) > 0 {
		// an empty result means "no filter": it covers everything. The reference does
		// not expand wildcards through symlinked directories, which is how the
		// implementation can reach the root here.
		anyWild := false
		for _, r := range c.Requests {
			if hasGlob(r) {
				anyWild = true
			}
		}
		if anyWild {
			env.Class("empty-result-with-wildcards")
			return nil
		}
		needed := false
		for _, o := range obs {
			if len(o.r.Traversed) > 0 || (o.r.Exists && o.r.Final != "") {
				needed = true
				if cl := classify(o); cl != "" {
					return env.Known(cl, "FollowLinks(%q) is empty although request %q does not resolve to the root", c.Requests, o.req)
				}
			}
		}
		if needed {
			return fmt.Errorf("FollowLinks(%q) is empty although no request resolves to the root", c.Requests)
		}
	}
	for _, o := range obs {
		var missing []string
		reported := map[string]bool{}
		for _, l := range o.r.Traversed {
			if !covered(l, res) && !reported[l] {
				reported[l] = true
				missing = append(missing, "traversed link "+l)
			}
		}
		if o.r.Exists && !o.r.Loop && o.r.Final != "" && !covered(o.r.Final, res) {
			missing = append(missing, "final location "+o.r.Final)
		}
		if len(missing) == 0 {
			continue
		}
		if cl := classify(o); cl != "" {
			return env.Known(cl, "request %q (expanded %q): %v not covered by FollowLinks(%q) = %q", o.req, o.exp, missing, c.Requests, res)
		}
		return fmt.Errorf("request %q (expanded %q): %v not covered by FollowLinks(%q) = %q", o.req, o.exp, missing, c.Requests, res)
	}
	// end to end: with these follow-paths every request resolves in the destination as in the source
	view, err := fsutil.NewFilterFS(base, &fsutil.FilterOpt{FollowPaths: c.Requests})
	if err != nil {
		return fmt.Errorf("NewFilterFS with follow-paths %q: %v", c.Requests, err)
	}
	dstDir := filepath.Join(env.Scratch, "dst")
	if err := os.Mkdir(dstDir, 0o755); err != nil {
		return h.Infra(err)
	}
	sr := h.RunSync(view, dstDir, h.SyncOpt{Capacity: 8})
	if sr.Stuck != "" {
		env.Class("stuck")
		return nil
	}
	if sr.SendErr != nil || sr.RecvErr != nil {
		return fmt.Errorf("transfer with follow-paths %q failed: send=%v recv=%v", c.Requests, sr.SendErr, sr.RecvErr)
	}
	snap, err := h.Snapshot(dstDir)
	if err != nil {
		return h.Infra(err)
	}
	dt := snapTree(snap)
	sidx := c.Tree.Index()
	for _, o := range obs {
		if !o.r.Exists || o.r.Loop {
			continue
		}
		dr := h.ResolveIn(dt, o.exp, true)
		if !dr.Exists || dr.Final != o.r.Final {
			// (every obligation of every request is covered by the list at this point. The
			// "middle wildcard" finding is about links FollowLinks does not read, i.e. about
			// the list: it cannot excuse a transfer that drops what the list does name)
			if cl := classify(o); cl != "" && cl != "followlinks-middle-wildcard-not-followed" {
				return env.Known(cl, "follow-paths %q: %q resolves to %q in the source but to %q (exists=%v) in the transferred tree", c.Requests, o.exp, o.r.Final, dr.Final, dr.Exists)
			}
			return fmt.Errorf("follow-paths %q: in the source %q resolves to %q, in the transferred tree to %q (exists=%v); result was %q", c.Requests, o.exp, o.r.Final, dr.Final, dr.Exists, res)
		}
		sn, de := sidx[o.r.Final], snap[o.r.Final]
		if sn == nil || de == nil || sn.Kind != de.Kind {
			return fmt.Errorf("follow-paths %q: %q resolves to %q which is a %v in the destination, source has %v", c.Requests, o.exp, o.r.Final, de, sn)
		}
		if sn.Kind == h.KFile {
			src := sn
			if sn.LinkTo != "" {
				src = sidx[sn.LinkTo]
			}
			if want := h.ExpectedSnap(&h.Tree{Nodes: []h.Node{{Path: "f", Kind: h.KFile, Seed: src.Seed, Size: src.Size}}})["f"]; want.Sha != de.Sha {
				return fmt.Errorf("follow-paths %q: %q resolves to %q whose bytes differ from the source", c.Requests, o.exp, o.r.Final)
			}
		}
	}
	return nil
}

func TestC18(t *testing.T) {
	h.Run(t, "C18", genC18, c18Check)
}
