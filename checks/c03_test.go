package checks

import (
	"context"
	"encoding/json"
	"errors"
	"fmt"
	"os"
	"path"
	"path/filepath"
	"strings"
	"sync"
	"sync/atomic"
	"testing"
	"time"

	"github.com/tonistiigi/fsutil"
	"github.com/tonistiigi/fsutil/types"
	"pgregory.net/rapid"

	h "verif/harness"
)

// ---------------------------------------------------------------------------
// C03: an untrusted sender cannot touch anything outside dest

type hStat struct {
	Path   h.BStr            `json:"path"`
	Mode   uint32            `json:"mode"` // os.FileMode bits as sent
	Uid    uint32            `json:"uid"`
	Gid    uint32            `json:"gid"`
	Size   int64             `json:"size"`
	Mtime  int64             `json:"mtime"`
	Link   h.BStr            `json:"link"`
	Maj    int64             `json:"maj"`
	Min    int64             `json:"min"`
	Xattrs map[string][]byte `json:"xattrs,omitempty"`
	Seed   uint32            `json:"seed"` // content served if requested
}

func (s *hStat) stat() *types.Stat {
	return &types.Stat{Path: string(s.Path), Mode: s.Mode, Uid: s.Uid, Gid: s.Gid, Size: s.Size, ModTime: s.Mtime, Linkname: string(s.Link), Devmajor: s.Maj, Devminor: s.Min, Xattrs: s.Xattrs}
}

type c03Case struct {
	Stats     []hStat      `json:"stats"`
	Mutations []string     `json:"mutations"`
	Dst       *h.Tree      `json:"dst"`
	Mode      string       `json:"mode"` // normal | merge | metaonly
	Script    h.SendScript `json:"script"`
	Capacity  int          `json:"capacity"`
}

type c03JailArg struct {
	Dest     string       `json:"dest"`
	Stats    []hStat      `json:"stats"`
	Mode     string       `json:"mode"`
	Script   h.SendScript `json:"script"`
	Capacity int          `json:"capacity"`
	// SteerChmod: hold the content writer between "made the read-only file writable"
	// and "opened it" until the mode has been changed back by someone else (a hard
	// link to the same inode getting its metadata), bounded
	SteerChmod bool `json:"steer_chmod,omitempty"`
}

type c03JailResult struct {
	RecvErr   string   `json:"recverr"`
	Stuck     bool     `json:"stuck"`
	Dump      string   `json:"dump,omitempty"` // blocked goroutines when stuck
	Reqs      []uint32 `json:"reqs"`
	FinSeen   bool     `json:"finseen"`
	Sent      int      `json:"sent"`
	SentStats int      `json:"sentstats"` // STAT packets (without markers) the hostile sender got out before it stopped
	// steering diagnostics: how often the writer was held between chmod and open,
	// and how often its write permission was revoked meanwhile
	LateData    bool   `json:"latedata,omitempty"` // content for a completed id was sent after the receiver's FIN
	LateDataID  uint32 `json:"latedataid,omitempty"`
	HookCalls   int    `json:"hookcalls"`
	HookRevoked int    `json:"hookrevoked"`
}

// jailReceive runs inside the chroot.
func jailReceive(raw json.RawMessage) (any, error) {
	var a c03JailArg
	if err := json.Unmarshal(raw, &a); err != nil {
		return nil, err
	}
	stats := make([]*types.Stat, len(a.Stats))
	for i := range a.Stats {
		stats[i] = a.Stats[i].stat()
	}
	var hookCalls, hookRevoked int32
	if a.SteerChmod {
		fsutil.VerifAfterWriterChmod = func(p string) {
			atomic.AddInt32(&hookCalls, 1)
			for i := 0; i < 400; i++ {
				if fi, err := os.Lstat(p); err != nil || fi.Mode()&0o200 == 0 {
					atomic.AddInt32(&hookRevoked, 1)
					return
				}
				time.Sleep(50 * time.Microsecond)
			}
		}
		defer func() { fsutil.VerifAfterWriterChmod = nil }()
	}
	pair := h.NewPair(context.Background(), a.Capacity)
	opt := fsutil.ReceiveOpt{Merge: strings.Contains(a.Mode, "merge")}
	if strings.Contains(a.Mode, "metaonly") {
		opt.MetadataOnly = func(p string, st *types.Stat) bool { return c03Selected(p) }
	}
	var recvErr error
	sr := h.NewRefSendResult()
	var wg sync.WaitGroup
	wg.Add(2)
	go func() {
		defer wg.Done()
		recvErr = fsutil.Receive(pair.R.Context(), pair.R, a.Dest, opt)
		pair.R.Returned(recvErr)
	}()
	go func() {
		defer wg.Done()
		h.RunRefSender(sr, pair.S, stats, func(id uint32, st *types.Stat) []byte {
			n := int(a.Stats[id].Size)
			if n < 0 || n > 1<<20 {
				n = 10
			}
			return h.Content(a.Stats[id].Seed, n)
		}, a.Script, nil)
	}()
	done := make(chan struct{})
	go func() { wg.Wait(); close(done) }()
	res := &c03JailResult{}
	if dump := h.WaitOrStuck(done, pair); dump != "" {
		res.Stuck = true
		res.Dump = dump
		pair.S.Break(nil)
		pair.R.Break(nil)
		pair.S.Cancel()
		pair.R.Cancel()
		<-done
	}
	if recvErr != nil {
		res.RecvErr = recvErr.Error()
	}
	res.Reqs, res.FinSeen, res.Sent, res.SentStats = sr.Reqs, sr.FinSeen, sr.PacketsSent, sr.SentStats
	res.LateData, res.LateDataID = sr.LateDataSent, sr.LateDataID
	res.HookCalls, res.HookRevoked = int(atomic.LoadInt32(&hookCalls)), int(atomic.LoadInt32(&hookRevoked))
	return res, nil
}

var c03DstCfg = h.TreeCfg{
	MaxEntries: 8, MaxDepth: 3, Names: []string{"a", "b", "c", "ab", "d", "l"},
	Kinds:      []h.Kind{h.KFile, h.KFile, h.KSymlink, h.KSymlink, h.KSymlink},
	SymTargets: []string{"/outside/secret", "/outside/dir", "../sibling", "../../outside/dir", "..", "/", "../../outside/secret", "/parent/sibling", "a", "/outside/nonexistent"},
}

var c03SrcCfg = h.TreeCfg{
	MaxEntries: 8, MaxDepth: 3, Names: []string{"a", "b", "c", "ab", "d", "l"},
	Kinds:     []h.Kind{h.KFile, h.KFile, h.KFile, h.KSymlink, h.KFifo, h.KChar},
	Hardlinks: true, Xattrs: true, XattrNS: []string{"user.", "trusted."},
	SymTargets: []string{"/outside/secret", "/outside/dir", "../sibling", "../../outside/dir", "..", "a"},
}

var c03BadPaths = []string{"..", ".", "", "../x", "a/../..", "/abs", "a//b", "a/", "./a", `back\slash`, "a\x00b", "../sibling", "../../outside/secret", "/outside/secret", "a/../../sibling", "..a", "a/.."}

func genC03(t *rapid.T) *c03Case {
	c := &c03Case{}
	src := h.GenTree(t, c03SrcCfg, "src")
	mem := &h.MemFS{T: src, LinkSizeFull: rapid.Bool().Draw(t, "linkfull")}
	for i, st := range mem.Stats() {
		c.Stats = append(c.Stats, hStat{Path: h.BStr(st.Path), Mode: st.Mode, Uid: st.Uid, Gid: st.Gid, Size: st.Size, Mtime: st.ModTime, Link: h.BStr(st.Linkname), Maj: st.Devmajor, Min: st.Devminor, Xattrs: st.Xattrs, Seed: src.Nodes[i].Seed})
		if sz := src.Nodes[i].Size; src.Nodes[i].Kind == h.KFile && src.Nodes[i].LinkTo == "" {
			c.Stats[i].Size = int64(sz)
		}
	}
	c.Dst = h.GenTree(t, c03DstCfg, "dst")
	if rapid.Bool().Draw(t, "dstfromsrc") {
		// plant out-pointing symlinks exactly where the stream is going to write
		d := &h.Tree{}
		for _, n := range src.Nodes {
			par := path.Dir(n.Path)
			if par != "." {
				if p, ok := d.Index()[par]; !ok || p.Kind != h.KDir {
					continue
				}
			}
			switch rapid.IntRange(0, 3).Draw(t, "plant"+n.Path) {
			case 0:
				d.Nodes = append(d.Nodes, h.Node{Path: n.Path, Kind: h.KSymlink, Target: rapid.SampledFrom(c03DstCfg.SymTargets).Draw(t, "planttg"+n.Path)})
			case 1:
				if n.Kind == h.KDir {
					d.Nodes = append(d.Nodes, h.Node{Path: n.Path, Kind: h.KDir, Perm: 0o755})
				}
			case 2:
				// an old plain file: replacing it goes through a temporary name
				if n.Kind == h.KFile {
					d.Nodes = append(d.Nodes, h.Node{Path: n.Path, Kind: h.KFile, Perm: 0o600, Size: 4, Seed: 4242, Mtime: 12345})
				}
			}
		}
		d.Normalize()
		c.Dst = d
	}
	// a sender that guesses the receiver's temporary names: legal symlink entries
	// named like them (small counters, the writer's ".tmp.<9 digits>" shape) that point
	// outside, announced before the entries that replace old files
	if rapid.IntRange(0, 5).Draw(t, "guesstmp") == 0 {
		dirs := []string{""}
		for _, st := range c.Stats {
			if os.FileMode(st.Mode).IsDir() && len(dirs) < 3 {
				dirs = append(dirs, string(st.Path)+"/")
			}
		}
		target := rapid.SampledFrom([]string{"/outside/secret", "../../outside/secret", "/parent/sibling"}).Draw(t, "guesstarget")
		for _, d := range dirs {
			for k := 1; k <= 6; k++ {
				for _, name := range []string{fmt.Sprintf("%s.tmp.%09d", d, k), fmt.Sprintf("%s.tmp.%d", d, k)} {
					st := hStat{Path: h.BStr(name), Mode: uint32(os.ModeSymlink | 0o777), Link: h.BStr(target)}
					j := 0
					for j < len(c.Stats) && h.CmpComponents(string(c.Stats[j].Path), name) < 0 {
						j++
					}
					if j < len(c.Stats) && string(c.Stats[j].Path) == name {
						continue
					}
					c.Stats = append(c.Stats[:j], append([]hStat{st}, c.Stats[j:]...)...)
				}
			}
		}
		c.Mutations = append(c.Mutations, "guessed-temp-names")
	}
	// an old entry under the metadata-only listing's own name
	if rapid.IntRange(0, 4).Draw(t, "oldlisting") == 0 && c.Dst != nil {
		keep := c.Dst.Nodes[:0:0]
		for _, n := range c.Dst.Nodes {
			if n.Path != listingName && !strings.HasPrefix(n.Path, listingName+"/") {
				keep = append(keep, n)
			}
		}
		keep = append(keep, h.Node{Path: listingName, Kind: h.KSymlink, Perm: 0o777, Target: rapid.SampledFrom([]string{"/outside/secret", "../sibling", "/outside/newfile", "../../outside/dir/new"}).Draw(t, "oldlistingtarget")})
		c.Dst.Nodes = keep
		c.Dst.Normalize()
	}
	c.Mode = rapid.SampledFrom([]string{"normal", "normal", "merge", "metaonly", "merge+metaonly"}).Draw(t, "mode")
	// a selected hard link whose link source lies below a directory the selector
	// leaves out, while the destination holds an out-pointing symlink under that
	// directory's name (the stream itself is legal: "m", "m/b", "ma" -> "m/b")
	if rapid.IntRange(0, 7).Draw(t, "unfwdlink") == 0 {
		c.Mode = rapid.SampledFrom([]string{"metaonly", "merge+metaonly", "merge+metaonly"}).Draw(t, "unfwdmode")
		src := rapid.SampledFrom([]string{"b", "c", "l"}).Draw(t, "unfwdsrc")
		c.Stats = append(c.Stats,
			hStat{Path: "m", Mode: uint32(os.ModeDir | 0o755)},
			hStat{Path: h.BStr("m/" + src), Mode: 0o644, Size: 5, Seed: 77},
			hStat{Path: "ma", Mode: 0o666, Link: h.BStr("m/" + src)})
		c.Dst.Nodes = append(c.Dst.Nodes, h.Node{Path: "m", Kind: h.KSymlink, Perm: 0o777, Target: rapid.SampledFrom([]string{"/outside/dir", "../../outside/dir"}).Draw(t, "unfwdtarget")})
		c.Dst.Normalize()
		c.Mutations = append(c.Mutations, "link-source-below-unselected-dir")
	}
	c.Capacity = rapid.SampledFrom([]int{0, 8, 64}).Draw(t, "cap")
	c.Script.Chunk = []int{rapid.SampledFrom([]int{7, 4096, 32768}).Draw(t, "chunk")}
	c.Script.Choices = rapid.SliceOfN(rapid.IntRange(0, 5), 1, 6).Draw(t, "choices")
	c.Script.RaceStats = rapid.Bool().Draw(t, "race")
	c.Script.Tail = "echo"
	nm := rapid.IntRange(0, 3).Draw(t, "nmut")
	for i := 0; i < nm; i++ {
		li := fmt.Sprintf("m%d.", i)
		pick := func() int {
			if len(c.Stats) == 0 {
				return -1
			}
			return rapid.IntRange(0, len(c.Stats)-1).Draw(t, li+"pos")
		}
		switch rapid.IntRange(0, 15).Draw(t, li+"kind") {
		case 0: // ill-formed path
			if j := pick(); j >= 0 {
				c.Stats[j].Path = h.BStr(rapid.SampledFrom(c03BadPaths).Draw(t, li+"bad"))
				c.Mutations = append(c.Mutations, fmt.Sprintf("badpath[%d]=%q", j, c.Stats[j].Path))
			}
		case 1: // new hostile entry appended or inserted
			p := rapid.SampledFrom(append([]string{"", ""}, c03BadPaths...)).Draw(t, li+"newpath")
			md := rapid.SampledFrom([]uint32{0o644, uint32(os.ModeDir | 0o755), uint32(os.ModeSymlink | 0o777)}).Draw(t, li+"newmode")
			st := hStat{Path: h.BStr(p), Mode: md, Size: 3, Seed: 9}
			if os.FileMode(md)&os.ModeSymlink != 0 {
				st.Link = "/outside/secret"
			}
			j := rapid.IntRange(0, len(c.Stats)).Draw(t, li+"at")
			if p == "" && rapid.Bool().Draw(t, li+"allzero") {
				// a STAT whose stat is present but has every field at its zero value (it
				// encodes to nothing); at the very end it looks most like the marker
				st = hStat{}
				if rapid.Bool().Draw(t, li+"zeroatend") {
					j = len(c.Stats)
					c.Script.NoMarker = rapid.Bool().Draw(t, li+"nomarker")
				}
			}
			c.Stats = append(c.Stats[:j], append([]hStat{st}, c.Stats[j:]...)...)
			c.Mutations = append(c.Mutations, fmt.Sprintf("insert[%d]=%q", j, p))
		case 2: // swap neighbours / unsort
			if j := pick(); j >= 0 && j+1 < len(c.Stats) {
				c.Stats[j], c.Stats[j+1] = c.Stats[j+1], c.Stats[j]
				c.Mutations = append(c.Mutations, fmt.Sprintf("swap[%d]", j))
			}
		case 3: // duplicate
			if j := pick(); j >= 0 {
				k := rapid.IntRange(j, len(c.Stats)-1).Draw(t, li+"dupto")
				c.Stats = append(c.Stats[:k+1], append([]hStat{c.Stats[j]}, c.Stats[k+1:]...)...)
				c.Mutations = append(c.Mutations, fmt.Sprintf("dup[%d->%d]", j, k+1))
			}
		case 4: // drop (maybe a parent)
			if j := pick(); j >= 0 {
				c.Mutations = append(c.Mutations, fmt.Sprintf("drop[%d]=%q", j, c.Stats[j].Path))
				c.Stats = append(c.Stats[:j], c.Stats[j+1:]...)
			}
		case 5: // turn a directory into a file or symlink (children follow)
			if j := pick(); j >= 0 && os.FileMode(c.Stats[j].Mode).IsDir() {
				if rapid.Bool().Draw(t, li+"tosym") {
					c.Stats[j].Mode = uint32(os.ModeSymlink | 0o777)
					c.Stats[j].Link = h.BStr(rapid.SampledFrom([]string{"/outside/dir", "../../outside/dir", ".."}).Draw(t, li+"symtg"))
				} else {
					c.Stats[j].Mode = 0o644
				}
				c.Mutations = append(c.Mutations, fmt.Sprintf("dir->nondir[%d]", j))
			}
		case 6, 7: // hard link to something it must not name (an escaping or unknown name, or itself)
			if j := pick(); j >= 0 && os.FileMode(c.Stats[j].Mode)&os.ModeType == 0 {
				names := []string{"../sibling", "/outside/secret", "../../outside/secret", "nonexistent", "zzz-later", "..", "a/../../sibling", "/parent/sibling", string(c.Stats[j].Path), string(c.Stats[j].Path)}
				// escaping spellings that end in the name of a file this stream did send
				for k := 0; k < j; k++ {
					if m := os.FileMode(c.Stats[k].Mode); m&os.ModeType == 0 && c.Stats[k].Link == "" {
						p := string(c.Stats[k].Path)
						names = append(names, "../"+p, "../../outside/dir/"+p, "x/../../"+p, "./"+p, p+"/.", "/parent/"+p)
					}
				}
				c.Stats[j].Link = h.BStr(rapid.SampledFrom(names).Draw(t, li+"hl"))
				c.Mutations = append(c.Mutations, fmt.Sprintf("hardlink[%d]->%q", j, c.Stats[j].Link))
			}
		case 8: // hard link with a special mode bit (socket/device) and an escaping name
			if j := pick(); j >= 0 && !os.FileMode(c.Stats[j].Mode).IsDir() {
				c.Stats[j].Mode = uint32(rapid.SampledFrom([]os.FileMode{os.ModeSocket | 0o644, os.ModeNamedPipe | 0o644, os.ModeDevice | os.ModeCharDevice | 0o644, os.ModeIrregular | 0o644}).Draw(t, li+"spmode"))
				c.Stats[j].Link = h.BStr(rapid.SampledFrom([]string{"../sibling", "/outside/secret", "../../outside/secret"}).Draw(t, li+"splink"))
				c.Mutations = append(c.Mutations, fmt.Sprintf("special-hardlink[%d]", j))
			}
		case 9: // symlink with xattrs and an outside target
			if j := pick(); j >= 0 && !os.FileMode(c.Stats[j].Mode).IsDir() {
				c.Stats[j].Mode = uint32(os.ModeSymlink | 0o777)
				c.Stats[j].Link = h.BStr(rapid.SampledFrom([]string{"/outside/secret", "../sibling", "/outside/dir"}).Draw(t, li+"xl"))
				c.Stats[j].Xattrs = map[string][]byte{"user.pwn": []byte("1"), "trusted.pwn": []byte("2")}
				c.Mutations = append(c.Mutations, fmt.Sprintf("symlink-xattr[%d]", j))
			}
		case 10: // DATA for an id that can never be requested
			id := uint32(len(c.Stats) + rapid.IntRange(0, 3).Draw(t, li+"unk"))
			if rapid.Bool().Draw(t, li+"dirid") {
				for k, s := range c.Stats {
					if os.FileMode(s.Mode).IsDir() {
						id = uint32(k)
					}
				}
			}
			c.Script.Inject = append(c.Script.Inject, h.Inject{After: rapid.IntRange(0, len(c.Stats)+2).Draw(t, li+"after"), Type: "DATA", ID: id, Data: []byte("unsolicited")})
			c.Mutations = append(c.Mutations, fmt.Sprintf("data-unrequestable-id[%d]", id))
		case 11: // DATA for a file id at an arbitrary moment (maybe before its request, maybe after its terminator)
			if j := pick(); j >= 0 {
				c.Script.Inject = append(c.Script.Inject, h.Inject{After: rapid.IntRange(0, 2*len(c.Stats)+4).Draw(t, li+"after"), Type: "DATA", ID: uint32(j), Data: rapid.SampledFrom([][]byte{nil, []byte("x"), make([]byte, 70000)}).Draw(t, li+"payload")})
				c.Mutations = append(c.Mutations, fmt.Sprintf("data-anytime[%d]", j))
			}
		case 14: // a mode with more than one type bit: a directory that is also a symlink, a symlink that is also a directory
			if j := pick(); j >= 0 {
				m := os.FileMode(c.Stats[j].Mode)
				switch {
				case m.IsDir():
					c.Stats[j].Mode |= uint32(os.ModeSymlink)
					c.Stats[j].Link = h.BStr(rapid.SampledFrom([]string{"/outside/dir", "../../outside/dir", "../sibling"}).Draw(t, li+"mtl"))
				case m&os.ModeSymlink != 0:
					c.Stats[j].Mode |= uint32(os.ModeDir)
				default:
					c.Stats[j].Mode |= uint32(rapid.SampledFrom([]os.FileMode{os.ModeDir, os.ModeSymlink | os.ModeDir}).Draw(t, li+"mtb"))
					c.Stats[j].Link = "/outside/dir"
				}
				c.Mutations = append(c.Mutations, fmt.Sprintf("multi-type-mode[%d]", j))
			}
		case 15: // content for an id whose request is long complete, after the receiver's FIN
			c.Script.LateData = rapid.IntRange(1, 4).Draw(t, li+"late")
			c.Mutations = append(c.Mutations, "data-after-receiver-fin")
		case 12: // early FIN / ERR / second marker
			ty := rapid.SampledFrom([]string{"FIN", "ERR", "MARKER", "REQ"}).Draw(t, li+"ctl")
			c.Script.Inject = append(c.Script.Inject, h.Inject{After: rapid.IntRange(0, len(c.Stats)+2).Draw(t, li+"after"), Type: ty, Data: []byte("boom")})
			c.Mutations = append(c.Mutations, "inject-"+ty)
		case 13: // early end of stream
			c.Script.Tail = "eof"
			c.Script.EOFAfter = rapid.IntRange(0, len(c.Stats)+2).Draw(t, li+"eof")
			c.Mutations = append(c.Mutations, "early-eof")
		}
	}
	return c
}

// c03Classify is the independent reading of the statement: index of the first
// offending STAT (-1 none), whether the verdict is fixed by the statement, and
// whether unrequestable DATA is injected.
func c03Classify(c *c03Case) (firstBad int, unspecified bool) {
	var seq []h.SpecElem
	files := map[string]bool{}
	other := map[string]bool{}
	for i, s := range c.Stats {
		m := os.FileMode(s.Mode)
		k := h.SpecFile
		if m.IsDir() {
			k = h.SpecDir
		}
		p := string(s.Path)
		if strings.Contains(c.Mode, "metaonly") && p == listingName {
			continue // never looked at by a metadata-only receiver
		}
		seq = append(seq, h.SpecElem{Path: p, Kind: k})
		if h.StreamSpec(seq) >= 0 {
			return i, false
		}
		if strings.ContainsRune(p, 0) {
			// no file system entry can carry a NUL byte: the call cannot succeed
			// and cannot apply this entry, whatever the validator thinks of it
			return i, false
		}
		if !m.IsDir() && m&os.ModeSymlink == 0 {
			if s.Link != "" {
				if !files[string(s.Link)] {
					if other[string(s.Link)] {
						// names an earlier directory, symlink or link member: the statement does
						// not call it an offence, the code rejects it: either outcome
						return i, true
					}
					return i, false
				}
				other[p] = true
			} else {
				files[p] = true
			}
		} else {
			other[p] = true
		}
	}
	return -1, false
}

// c03Selected is the metadata-only selector of the jailed receiver.
func c03Selected(p string) bool { return len(p)%2 == 0 || strings.Contains(p, "a") }

func c03UnclosedSelection(c *c03Case) bool {
	if !strings.Contains(c.Mode, "metaonly") {
		return false
	}
	for _, s := range c.Stats {
		m := os.FileMode(s.Mode)
		if s.Link != "" && m&os.ModeSymlink == 0 && !m.IsDir() && c03Selected(string(s.Path)) && !c03Selected(string(s.Link)) {
			return true
		}
	}
	return false
}

func c03Check(env *h.Env, c *c03Case) error {
	jail := filepath.Join(env.Scratch, "jail")
	for _, d := range []string{"outside/dir", "parent/dest"} {
		if err := os.MkdirAll(filepath.Join(jail, d), 0o755); err != nil {
			return h.Infra(err)
		}
	}
	for p, v := range map[string]string{"outside/secret": "top secret", "outside/dir/inner": "inner secret", "parent/sibling": "precious sibling",
		// names the destination trees use too: a delete that goes through a link finds something
		"parent/a": "parent a", "parent/b": "parent b", "parent/c": "parent c", "parent/ab": "parent ab", "parent/d": "parent d", "parent/l": "parent l",
		"outside/dir/a": "outside a", "outside/dir/b": "outside b", "outside/dir/c": "outside c", "outside/dir/ab": "outside ab", "outside/dir/d": "outside d", "outside/dir/l": "outside l"} {
		if err := os.WriteFile(filepath.Join(jail, p), []byte(v), 0o600); err != nil {
			return h.Infra(err)
		}
	}
	dest := filepath.Join(jail, "parent", "dest")
	if err := h.Materialise(c.Dst, dest); err != nil {
		return h.Infra(err)
	}
	before, err := h.Snapshot(jail)
	if err != nil {
		return h.Infra(err)
	}
	var res c03JailResult
	arg := c03JailArg{Dest: "/parent/dest", Stats: c.Stats, Mode: c.Mode, Script: c.Script, Capacity: c.Capacity}
	if err := runJailed(jail, "receive", 0, arg, &res); err != nil {
		var crash *helperCrash
		if errors.As(err, &crash) {
			return fmt.Errorf("mode=%s mutations=%v: the receiving %v", c.Mode, c.Mutations, crash)
		}
		return h.Infra(err)
	}
	after, err := h.Snapshot(jail)
	if err != nil {
		return h.Infra(err)
	}
	firstBad, unspecified := c03Classify(c)
	hostile := firstBad >= 0 || len(c.Script.Inject) > 0 || c.Script.Tail == "eof" || c.Script.LateData > 0 || c.Script.NoMarker
	for _, st := range c.Stats {
		// a mode with several type bits is no entry type at all: verdict open, containment only
		if tb := os.FileMode(st.Mode) & os.ModeType; tb&(tb-1) != 0 && tb != os.ModeDevice|os.ModeCharDevice {
			hostile = true
		}
	}
	outPointing := false
	for _, n := range c.Dst.Nodes {
		if n.Kind == h.KSymlink && (strings.Contains(n.Target, "outside") || strings.Contains(n.Target, "..") || strings.HasPrefix(n.Target, "/")) {
			for _, s := range c.Stats {
				if string(s.Path) == n.Path || strings.HasPrefix(string(s.Path), n.Path+"/") {
					outPointing = true
				}
			}
		}
	}
	if hostile || outPointing {
		env.NonTrivial()
	}
	if firstBad >= 0 {
		env.Class("offending-stat")
	}
	if outPointing {
		env.Class("dest-symlink-on-touched-path")
	}
	if len(c.Script.Inject) > 0 {
		env.Class("injected-packets")
	}
	env.Class("mode-" + c.Mode)
	what := fmt.Sprintf("mode=%s mutations=%v", c.Mode, c.Mutations)
	if res.Stuck {
		env.Class("stuck")
	}
	// (1) nothing outside dest changes, including dest's own entry in its parent
	for p, b := range before {
		if p == "parent/dest" || strings.HasPrefix(p, "parent/dest/") {
			continue
		}
		a := after[p]
		if a == nil {
			return fmt.Errorf("%s: %q outside the destination was removed (recv err: %s)", what, p, res.RecvErr)
		}
		if !h.SameEntry(a, b, true) {
			return fmt.Errorf("%s: %q outside the destination was modified: %+v -> %+v (recv err: %s)", what, p, *b, *a, res.RecvErr)
		}
	}
	for p, a := range after {
		if p == "parent/dest" || strings.HasPrefix(p, "parent/dest/") {
			continue
		}
		if before[p] == nil {
			return fmt.Errorf("%s: %q was created outside the destination (%s) (recv err: %s)", what, p, a.Kind, res.RecvErr)
		}
	}
	bd, ad := before["parent/dest"], after["parent/dest"]
	if ad == nil || ad.Kind != h.KDir || ad.Ino != bd.Ino || ad.Perm != bd.Perm || ad.Uid != bd.Uid || ad.Gid != bd.Gid || fmt.Sprint(ad.Xattrs) != fmt.Sprint(bd.Xattrs) {
		return fmt.Errorf("%s: the destination directory's own entry changed: %+v -> %+v", what, bd, ad)
	}
	// (2) an offending stream fails, and nothing at or after the first offence is applied
	if firstBad >= 0 && !unspecified && !res.Stuck {
		// (the receiver may have finished - an injected marker lets it send FIN -
		// before the sender got the offending entry out: then there was no offence)
		if res.RecvErr == "" && res.SentStats > firstBad {
			return fmt.Errorf("%s: STAT %d (%q, link %q) breaks the stream rules but Receive returned success", what, firstBad, c.Stats[firstBad].Path, c.Stats[firstBad].Link)
		}
		earlier := map[string]bool{}
		for i := 0; i < firstBad; i++ {
			earlier[path.Clean(string(c.Stats[i].Path))] = true
		}
		for i := firstBad; i < len(c.Stats); i++ {
			rel := path.Clean("/" + string(c.Stats[i].Path))[1:]
			if rel == "" || earlier[rel] || earlier[path.Clean(string(c.Stats[i].Path))] {
				continue
			}
			touchedByEarlier := false
			for e := range earlier {
				if strings.HasPrefix(rel, e+"/") || strings.HasPrefix(e, rel+"/") {
					touchedByEarlier = true
				}
			}
			if touchedByEarlier {
				continue
			}
			b, a := before["parent/dest/"+rel], after["parent/dest/"+rel]
			if a != nil && (b == nil || a.Ino != b.Ino) {
				return fmt.Errorf("%s: entry %d (%q) comes at or after the first offending entry %d but was applied to %q", what, i, c.Stats[i].Path, firstBad, rel)
			}
		}
	}
	// ... and the old destination is not treated as if the stream had ended there: what
	// sorts after the last accepted entry has not been compared with anything yet
	if firstBad >= 0 && !unspecified && !res.Stuck && c.Mode == "normal" && len(c.Script.Inject) == 0 && res.RecvErr != "" {
		last := ""
		replacedByNonDir := map[string]bool{}
		for i := 0; i < firstBad; i++ {
			last = path.Clean(string(c.Stats[i].Path))
			if !os.FileMode(c.Stats[i].Mode).IsDir() {
				replacedByNonDir[last] = true
			}
		}
		sawAny := firstBad > 0
		specOK := func() bool {
			var seq []h.SpecElem
			for i := 0; i <= firstBad; i++ {
				k := h.SpecFile
				if os.FileMode(c.Stats[i].Mode).IsDir() {
					k = h.SpecDir
				}
				seq = append(seq, h.SpecElem{Path: string(c.Stats[i].Path), Kind: k})
			}
			return h.StreamSpec(seq) < 0
		}
		if bp := string(c.Stats[firstBad].Path); strings.ContainsRune(bp, 0) && specOK() {
			// (a NUL byte in an otherwise well-placed path is only found out by the file
			// system: the entry itself still takes part in the comparison with the old
			// destination)
			last, sawAny = path.Clean(bp), true
		}
		for p, b := range before {
			if !strings.HasPrefix(p, "parent/dest/") {
				continue
			}
			rel := strings.TrimPrefix(p, "parent/dest/")
			if sawAny && h.CmpComponents(rel, last) <= 0 {
				continue
			}
			under := false
			for a := path.Dir(rel); a != "." && a != "/"; a = path.Dir(a) {
				if replacedByNonDir[a] {
					under = true
				}
			}
			if under {
				continue
			}
			env.Class("old-entry-after-the-offence")
			if a := after[p]; a == nil || a.Ino != b.Ino {
				return fmt.Errorf("%s: the stream was rejected at STAT %d (%q), yet the old destination entry %q, which sorts after the last accepted entry %q, was removed or replaced", what, firstBad, c.Stats[firstBad].Path, rel, last)
			}
		}
	}
	// DATA for an id that can never be requested must fail the call
	for _, in := range c.Script.Inject {
		if in.Type == "DATA" && in.After >= 0 && strings.HasPrefix(strings.Join(c.Mutations, " "), "") {
			unreq := int(in.ID) >= len(c.Stats) || os.FileMode(c.Stats[in.ID].Mode).IsDir()
			if unreq && res.Sent > in.After && res.RecvErr == "" && !res.Stuck && firstBad < 0 && len(c.Script.Inject) == 1 && c.Script.Tail == "echo" {
				return fmt.Errorf("%s: DATA for id %d, which is never requested, was sent but Receive returned success", what, in.ID)
			}
		}
	}
	// content for an id that is not (any longer) requested: when the receiver has sent
	// FIN every request it made is complete, so DATA for one of those ids fails the call
	if res.LateData {
		env.Class("data-after-receiver-fin")
		if res.RecvErr == "" && !res.Stuck {
			return fmt.Errorf("%s: after the receiver's FIN the sender sent content for id %d, whose request was complete, and Receive returned success", what, res.LateDataID)
		}
	}
	// (3) a legal stream succeeds (a metadata-only selector that picks a hard link
	// but not its link source is outside what C19 states: either verdict)
	if !hostile && firstBad < 0 && !res.Stuck && !c03UnclosedSelection(c) {
		if res.RecvErr != "" && !strings.Contains(c.Mode, "merge") {
			return fmt.Errorf("%s: legal stream but Receive failed: %s", what, res.RecvErr)
		}
	}
	return nil
}

func TestC03(t *testing.T) {
	h.Run(t, "C03", genC03, c03Check)
}

// FuzzC03Script feeds coverage-guided bytes to the same script generator and
// oracle (rapid.MakeFuzz turns the byte string into the generator's choices).
func FuzzC03Script(f *testing.F) {
	r := h.NewRunner("C03")
	f.Add([]byte{0})
	f.Add([]byte("\x03\x01\x02\x07\x00\x05\x01\x01\x03\x02\x09\x04\x00\x00\x01\x02\x0d\x01"))
	f.Fuzz(rapid.MakeFuzz(func(t *rapid.T) {
		c := genC03(t)
		if err := h.RunOnce(r, c, c03Check); err != nil {
			var he *h.HarnessError
			if errors.As(err, &he) {
				t.Skip("harness")
			}
			t.Fatalf("C03 violated: %v", err)
		}
	}))
}
