package checks

import (
	"encoding/json"
	"fmt"
)

func jailCopy(raw json.RawMessage) (any, error) { return nil, fmt.Errorf("not implemented") }
