package checks

import (
	"context"
	"crypto/sha256"
	"encoding/hex"
	"encoding/json"
	"errors"
	"fmt"
	"os"
	"path/filepath"
	"sort"
	"strings"
	"testing"
	"time"

	fscopy "github.com/tonistiigi/fsutil/copy"
	"pgregory.net/rapid"

	h "verif/harness"
)

// ---------------------------------------------------------------------------
// C14: Copy never writes outside the destination root nor reads outside the
// source root

type c14Case struct {
	Src     *h.Tree  `json:"src"`
	Dst     *h.Tree  `json:"dst"`
	SrcArg  string   `json:"srcarg"`
	DstArg  string   `json:"dstarg"`
	Follow  bool     `json:"follow"`
	Opts    h.CpOpts `json:"opts"`
	Include []string `json:"include,omitempty"`
	Exclude []string `json:"exclude,omitempty"`
	Mode    *int     `json:"mode,omitempty"` // octal mode option
	Chown   []int    `json:"chown,omitempty"`
	Utime   int64    `json:"utime,omitempty"` // ns; 0 = option not set
}

type c14JailArg struct {
	SrcArg  string   `json:"srcarg"`
	DstArg  string   `json:"dstarg"`
	Follow  bool     `json:"follow"`
	Opts    h.CpOpts `json:"opts"`
	Include []string `json:"include,omitempty"`
	Exclude []string `json:"exclude,omitempty"`
	Mode    *int     `json:"mode,omitempty"`
	Chown   []int    `json:"chown,omitempty"`
	Utime   int64    `json:"utime,omitempty"`
}

type c14JailResult struct {
	Err string `json:"err"`
}

func jailCopy(raw json.RawMessage) (any, error) {
	var a c14JailArg
	if err := json.Unmarshal(raw, &a); err != nil {
		return nil, err
	}
	ci := fscopy.CopyInfo{FollowLinks: a.Follow, CopyDirContents: a.Opts.DirContents, AlwaysReplaceExistingDestPaths: a.Opts.AlwaysReplace, AllowWildcards: a.Opts.Wildcards,
		IncludePatterns: a.Include, ExcludePatterns: a.Exclude, Mode: a.Mode}
	if a.Utime != 0 {
		tm := time.Unix(0, a.Utime)
		ci.Utime = &tm
	}
	if a.Chown != nil {
		uid, gid := a.Chown[0], a.Chown[1]
		ci.Chown = func(*fscopy.User) (*fscopy.User, error) { return &fscopy.User{UID: uid, GID: gid}, nil }
	}
	err := fscopy.Copy(context.Background(), "/src", a.SrcArg, "/dst", a.DstArg, fscopy.WithCopyInfo(ci))
	res := &c14JailResult{}
	if err != nil {
		res.Err = err.Error()
	}
	return res, nil
}

var c14Targets = []string{
	"/outside/secret", "/outside/dir", "../../outside/dir", "../outside/secret", "../../../outside/secret",
	"dangling", "/outside/nonexistent", "../outside/newfile", "../../outside/newdir", "loop", "a", "/a", "..", ".", "/", "b/../../outside/dir",
}

var c14TreeCfg = h.TreeCfg{
	MaxEntries: 8, MaxDepth: 3, Names: []string{"a", "b", "c", "l", "loop", "d"},
	Kinds:      []h.Kind{h.KFile, h.KFile, h.KSymlink, h.KSymlink, h.KSymlink, h.KFifo},
	SymTargets: c14Targets,
	Hardlinks:  true,
}

func genC14Arg(t *rapid.T, tr *h.Tree, label string) string {
	if len(tr.Nodes) == 0 || rapid.IntRange(0, 5).Draw(t, label+"root") == 0 {
		return rapid.SampledFrom([]string{"/", "new", "n1/n2/x", "."}).Draw(t, label+"plain")
	}
	p := tr.Nodes[rapid.IntRange(0, len(tr.Nodes)-1).Draw(t, label+"node")].Path
	p += rapid.SampledFrom([]string{"", "", "", "/new", "/n1/n2/x", "/new/deep/data.txt", "/", "/..", "/../x", "/a"}).Draw(t, label+"suffix")
	if rapid.IntRange(0, 7).Draw(t, label+"abs") == 0 {
		p = "/" + p
	}
	if rapid.IntRange(0, 9).Draw(t, label+"dotdot") == 0 {
		p = "../../" + p
	}
	return p
}

func genC14(t *rapid.T) *c14Case {
	c := &c14Case{Src: h.GenTree(t, c14TreeCfg, "src"), Dst: h.GenTree(t, c14TreeCfg, "dst")}
	c.SrcArg = genC14Arg(t, c.Src, "sa.")
	c.DstArg = genC14Arg(t, c.Dst, "da.")
	c.Follow = rapid.Bool().Draw(t, "follow")
	c.Opts.DirContents = rapid.Bool().Draw(t, "dircontents")
	c.Opts.AlwaysReplace = rapid.IntRange(0, 2).Draw(t, "replace") == 0
	if rapid.IntRange(0, 4).Draw(t, "wild") == 0 {
		c.Opts.Wildcards = true
		// (one time in three the argument stays a literal path: expansion is switched
		// on, as builders do for every source, but has nothing to expand)
		if rapid.IntRange(0, 2).Draw(t, "wildliteral") != 0 {
			c.SrcArg = rapid.SampledFrom([]string{"*", "l/*", "*/a", "a*", "l*", "?"}).Draw(t, "glob")
		}
	}
	// include/exclude patterns delay the creation of parent directories
	if rapid.IntRange(0, 2).Draw(t, "patterns") == 0 {
		c.Include = h.GenPatterns(t, c.Src, "inc", 2)
		c.Exclude = h.GenPatterns(t, c.Src, "exc", 2)
		if rapid.Bool().Draw(t, "deeppattern") {
			c.Include = append(c.Include, rapid.SampledFrom([]string{"a/*/c", "*/*/*", "**/c", "l/*/a", "*/b/*", "**/a"}).Draw(t, "deep"))
		}
	}
	// steered scenario: patterns that delay the creation of a parent directory, and a
	// destination symlink sitting exactly where that parent would go
	if rapid.IntRange(0, 3).Draw(t, "delayedparent") == 0 {
		d1 := rapid.SampledFrom([]string{"a", "b", "d"}).Draw(t, "dp1")
		d2 := rapid.SampledFrom([]string{"a", "b", "c"}).Draw(t, "dp2")
		f := rapid.SampledFrom([]string{"c", "a", "l"}).Draw(t, "dpf")
		src := &h.Tree{Nodes: []h.Node{
			{Path: d1, Kind: h.KDir, Perm: 0o755}, {Path: d1 + "/" + d2, Kind: h.KDir, Perm: 0o755},
			{Path: d1 + "/" + d2 + "/" + f, Kind: h.KFile, Perm: 0o644},
		}}
		for _, n := range c.Src.Nodes {
			if n.Path != d1 && !strings.HasPrefix(n.Path, d1+"/") {
				src.Nodes = append(src.Nodes, n)
			}
		}
		src.Normalize()
		c.Src = src
		c.Include = []string{rapid.SampledFrom([]string{d1 + "/*/" + f, "**/" + f, "*/" + d2 + "/*", d1 + "/" + d2 + "/" + f}).Draw(t, "dppat")}
		c.Exclude = nil
		if rapid.Bool().Draw(t, "dpexc") {
			c.Include = nil
			c.Exclude = []string{d1, "!" + d1 + "/" + d2 + "/" + f}
		}
		tg := rapid.SampledFrom([]string{"/outside/dir", "../outside/dir", "/outside/dir/" + d1}).Draw(t, "dptarget")
		dst := &h.Tree{}
		if rapid.Bool().Draw(t, "dpdeep") {
			dst.Nodes = []h.Node{{Path: d1, Kind: h.KDir, Perm: 0o755}, {Path: d1 + "/" + d2, Kind: h.KSymlink, Target: tg}}
		} else {
			dst.Nodes = []h.Node{{Path: d1, Kind: h.KSymlink, Target: tg}}
		}
		dst.Normalize()
		c.Dst = dst
		c.SrcArg, c.DstArg = "/", "/"
		c.Opts.Wildcards = false
	}
	// steered scenario: several wildcard matches merged into one destination, where a
	// later match replaces (always-replace) a directory written by an earlier one with
	// an out-pointing symlink and then brings a hard link to a file the earlier match
	// put below that directory
	if rapid.IntRange(0, 5).Draw(t, "stalelink") == 0 {
		d := rapid.SampledFrom([]string{"a", "b", "d"}).Draw(t, "sl.d")
		f := rapid.SampledFrom([]string{"a", "c", "inner"}).Draw(t, "sl.f")
		g := rapid.SampledFrom([]string{"l", "c", "zz"}).Draw(t, "sl.g")
		tg := rapid.SampledFrom([]string{"/outside/dir", "../outside/dir", "../../outside/dir"}).Draw(t, "sl.target")
		src := &h.Tree{Nodes: []h.Node{
			{Path: "m1", Kind: h.KDir, Perm: 0o755}, {Path: "m1/" + d, Kind: h.KDir, Perm: 0o755},
			{Path: "m1/" + d + "/" + f, Kind: h.KFile, Perm: 0o644},
			{Path: "m2", Kind: h.KDir, Perm: 0o755}, {Path: "m2/" + d, Kind: h.KSymlink, Target: tg},
			{Path: "m2/" + g, Kind: h.KFile, Perm: 0o644, LinkTo: "m1/" + d + "/" + f},
		}}
		if rapid.Bool().Draw(t, "sl.linkfirst") {
			// the link source itself is replaced by a symlink
			src.Nodes[4] = h.Node{Path: "m2/" + d, Kind: h.KDir, Perm: 0o755}
			src.Nodes = append(src.Nodes, h.Node{Path: "m2/" + d + "/" + f, Kind: h.KSymlink, Target: tg + "/" + f})
		}
		src.Normalize()
		c.Src = src
		c.SrcArg = rapid.SampledFrom([]string{"m*", "*", "m?"}).Draw(t, "sl.glob")
		c.DstArg = rapid.SampledFrom([]string{"/", "new", "new/"}).Draw(t, "sl.dst")
		c.Opts.Wildcards, c.Opts.DirContents = true, true
		c.Opts.AlwaysReplace = rapid.IntRange(0, 3).Draw(t, "sl.replace") != 0
		c.Include, c.Exclude = nil, nil
		c.Follow = false
		if rapid.Bool().Draw(t, "sl.emptydst") {
			c.Dst = &h.Tree{}
		}
	}
	// steered scenario: the first wildcard match is a symlink to an outside directory and
	// the destination does not exist yet, so the first match creates it as that symlink;
	// the following matches must not be written through it
	if rapid.IntRange(0, 7).Draw(t, "firstmatchlink") == 0 {
		tg := rapid.SampledFrom([]string{"/outside/dir", "../outside/dir", "../../outside/dir"}).Draw(t, "fm.target")
		f := rapid.SampledFrom([]string{"a", "c", "inner"}).Draw(t, "fm.f")
		src := &h.Tree{Nodes: []h.Node{
			{Path: "m1", Kind: h.KSymlink, Target: tg},
			{Path: f, Kind: h.KFile, Perm: 0o600},
		}}
		// the later matches: files and directories in a drawn order
		for _, m := range []string{"m2", "m3"} {
			if rapid.Bool().Draw(t, "fm.isdir."+m) {
				src.Nodes = append(src.Nodes, h.Node{Path: m, Kind: h.KDir, Perm: 0o755}, h.Node{Path: m + "/" + f, Kind: h.KFile, Perm: 0o644})
			} else {
				src.Nodes = append(src.Nodes, h.Node{Path: m, Kind: h.KFile, Perm: 0o644})
			}
		}
		src.Normalize()
		c.Src = src
		c.SrcArg = rapid.SampledFrom([]string{"m*", "m?", "m[1-3]"}).Draw(t, "fm.glob")
		c.DstArg = rapid.SampledFrom([]string{"new", "new/sub", "n1/n2/x"}).Draw(t, "fm.dst")
		c.Opts.Wildcards = true
		c.Opts.DirContents = rapid.IntRange(0, 3).Draw(t, "fm.dircontents") != 0
		c.Opts.AlwaysReplace = rapid.Bool().Draw(t, "fm.replace")
		c.Include, c.Exclude = nil, nil
		c.Follow = false
		c.Dst = &h.Tree{}
	}
	// steered scenario: a directory copied into an existing directory, where the name
	// it is going to get is already taken by a symlink to an outside directory
	if rapid.IntRange(0, 7).Draw(t, "basenamelink") == 0 {
		d := rapid.SampledFrom([]string{"a", "b", "d"}).Draw(t, "bl.d")
		f := rapid.SampledFrom([]string{"a", "c", "inner"}).Draw(t, "bl.f")
		tg := rapid.SampledFrom([]string{"/outside/dir", "../outside/dir", "../../outside/dir", "/outside/dir/" + d}).Draw(t, "bl.target")
		src := &h.Tree{Nodes: []h.Node{{Path: d, Kind: h.KDir, Perm: 0o755}, {Path: d + "/" + f, Kind: h.KFile, Perm: 0o644}}}
		for _, n := range c.Src.Nodes {
			if n.Path != d && !strings.HasPrefix(n.Path, d+"/") {
				src.Nodes = append(src.Nodes, n)
			}
		}
		src.Normalize()
		c.Src = src
		c.SrcArg = rapid.SampledFrom([]string{d, d + "/", "/" + d}).Draw(t, "bl.src")
		if rapid.Bool().Draw(t, "bl.deep") {
			c.Dst = &h.Tree{Nodes: []h.Node{{Path: "e", Kind: h.KDir, Perm: 0o755}, {Path: "e/" + d, Kind: h.KSymlink, Target: tg}}}
			c.DstArg = rapid.SampledFrom([]string{"e", "e/", "/e"}).Draw(t, "bl.dst")
		} else {
			c.Dst = &h.Tree{Nodes: []h.Node{{Path: d, Kind: h.KSymlink, Target: tg}}}
			c.DstArg = rapid.SampledFrom([]string{"/", ".", ""}).Draw(t, "bl.dst")
		}
		c.Dst.Normalize()
		c.Opts.DirContents = rapid.IntRange(0, 3).Draw(t, "bl.dircontents") == 0
		c.Opts.AlwaysReplace = rapid.IntRange(0, 3).Draw(t, "bl.replace") == 0
		c.Opts.Wildcards = rapid.IntRange(0, 3).Draw(t, "bl.wild") == 0
		c.Include, c.Exclude = nil, nil
	}
	// steered scenario: a literal source path that runs through a source symlink to an
	// outside directory which does hold the named entry, with and without expansion
	if rapid.IntRange(0, 7).Draw(t, "literalthroughlink") == 0 {
		l := rapid.SampledFrom([]string{"l", "abs", "b"}).Draw(t, "ll.l")
		tg := rapid.SampledFrom([]string{"/outside/dir", "../outside/dir", "../../outside/dir", "/outside"}).Draw(t, "ll.target")
		src := &h.Tree{Nodes: []h.Node{{Path: l, Kind: h.KSymlink, Target: tg}}}
		for _, n := range c.Src.Nodes {
			if n.Path != l && !strings.HasPrefix(n.Path, l+"/") {
				src.Nodes = append(src.Nodes, n)
			}
		}
		if rapid.Bool().Draw(t, "ll.deep") {
			src.Nodes = append(src.Nodes, h.Node{Path: "zz", Kind: h.KDir, Perm: 0o755}, h.Node{Path: "zz/" + l, Kind: h.KSymlink, Target: tg})
			l = "zz/" + l
		}
		src.Normalize()
		c.Src = src
		c.SrcArg = l + "/" + rapid.SampledFrom([]string{"a", "inner", "secret", "dir/a", "dir"}).Draw(t, "ll.f")
		c.DstArg = rapid.SampledFrom([]string{"out", "new/", "/"}).Draw(t, "ll.dst")
		c.Opts.Wildcards = rapid.IntRange(0, 2).Draw(t, "ll.wild") != 0
		c.Include, c.Exclude = nil, nil
	}
	// metadata options: applied with chmod/chown/utimes calls that must not follow links
	if rapid.IntRange(0, 2).Draw(t, "modeopt") == 0 {
		m := rapid.SampledFrom([]int{0o700, 0o644, 0o4755, 0}).Draw(t, "mode")
		c.Mode = &m
	}
	if rapid.IntRange(0, 3).Draw(t, "chownopt") == 0 {
		c.Chown = []int{4242, 4343}
	}
	if rapid.IntRange(0, 3).Draw(t, "utimeopt") == 0 {
		c.Utime = 1234567890123456789
	}
	// unique, non-empty contents so bytes can be traced to their origin
	for i := range c.Src.Nodes {
		if n := &c.Src.Nodes[i]; n.Kind == h.KFile && n.LinkTo == "" {
			n.Size = 40 + i
			n.Seed = uint32(1000 + i)
		}
	}
	for i := range c.Dst.Nodes {
		if n := &c.Dst.Nodes[i]; n.Kind == h.KFile && n.LinkTo == "" {
			n.Size = 60 + i
			n.Seed = uint32(2000 + i)
		}
	}
	c.Src.Normalize()
	c.Dst.Normalize()
	return c
}

func c14Check(env *h.Env, c *c14Case) error {
	jail := filepath.Join(env.Scratch, "jail")
	for _, d := range []string{"outside/dir", "src", "dst"} {
		if err := os.MkdirAll(filepath.Join(jail, d), 0o755); err != nil {
			return h.Infra(err)
		}
	}
	for p, v := range map[string]string{"outside/secret": "OUTSIDE top secret bytes", "outside/dir/inner": "OUTSIDE inner secret bytes", "outside/dir/a": "OUTSIDE dir a bytes"} {
		if err := os.WriteFile(filepath.Join(jail, p), []byte(v), 0o600); err != nil {
			return h.Infra(err)
		}
	}
	// mirror the source tree's shape below outside/dir (sentinel content), so that a path
	// reached through an out-pointing directory link exists and could be removed or overwritten
	mirror := append([]h.Node{}, c.Src.Nodes...)
	for _, n := range c.Src.Nodes {
		// also with the leading components dropped, one after the other
		for rest := n.Path; ; {
			i := strings.Index(rest, "/")
			if i < 0 {
				break
			}
			rest = rest[i+1:]
			m := n
			m.Path = rest
			mirror = append(mirror, m)
		}
	}
	for _, n := range mirror {
		p := filepath.Join(jail, "outside/dir", filepath.FromSlash(n.Path))
		if n.Kind == h.KDir {
			os.MkdirAll(p, 0o755)
		} else if _, err := os.Lstat(filepath.Dir(p)); err == nil {
			os.WriteFile(p, []byte("OUTSIDE mirror of "+n.Path), 0o600)
		}
	}
	if err := h.Materialise(c.Src, filepath.Join(jail, "src")); err != nil {
		return h.Infra(err)
	}
	if err := h.Materialise(c.Dst, filepath.Join(jail, "dst")); err != nil {
		return h.Infra(err)
	}
	before, err := h.Snapshot(jail)
	if err != nil {
		return h.Infra(err)
	}
	var res c14JailResult
	if err := runJailed(jail, "copy", 0, c14JailArg{SrcArg: c.SrcArg, DstArg: c.DstArg, Follow: c.Follow, Opts: c.Opts, Include: c.Include, Exclude: c.Exclude, Mode: c.Mode, Chown: c.Chown, Utime: c.Utime}, &res); err != nil {
		var crash *helperCrash
		if errors.As(err, &crash) {
			return fmt.Errorf("Copy(src=%q dst=%q): the copying %v", c.SrcArg, c.DstArg, crash)
		}
		return h.Infra(err)
	}
	after, err := h.Snapshot(jail)
	if err != nil {
		return h.Infra(err)
	}
	what := fmt.Sprintf("Copy(src=%q, dst=%q, follow=%v, dir-contents=%v, always-replace=%v, wildcards=%v, include=%q, exclude=%q) -> err=%q", c.SrcArg, c.DstArg, c.Follow, c.Opts.DirContents, c.Opts.AlwaysReplace, c.Opts.Wildcards, c.Include, c.Exclude, res.Err)
	if len(c.Include)+len(c.Exclude) > 0 {
		env.Class("patterns")
	}
	// non-trivial: a symlink that leaves a root lies on a path the copy may touch
	leaves := func(tr *h.Tree, arg string) bool {
		for _, n := range tr.Nodes {
			if n.Kind != h.KSymlink {
				continue
			}
			if strings.Contains(n.Target, "outside") || strings.HasPrefix(n.Target, "..") || n.Target == "/" {
				a := strings.Trim(filepath.ToSlash(filepath.Clean("/"+arg)), "/")
				if a == "" || a == n.Path || strings.HasPrefix(a, n.Path+"/") || strings.HasPrefix(n.Path, a+"/") {
					return true
				}
			}
		}
		return false
	}
	if leaves(c.Src, c.SrcArg) {
		env.Class("src-escaping-link-on-path")
		env.NonTrivial()
	}
	if leaves(c.Dst, c.DstArg) || leaves(c.Dst, "/") && res.Err == "" {
		env.Class("dst-escaping-link-on-path")
		env.NonTrivial()
	}
	if res.Err == "" {
		env.Class("copy-succeeded")
	} else {
		env.Class("copy-failed")
	}
	// (1) nothing outside the destination root changes
	for p, b := range before {
		if p == "dst" || strings.HasPrefix(p, "dst/") {
			continue
		}
		a := after[p]
		if a == nil {
			return fmt.Errorf("%s: %q outside the destination root was removed", what, p)
		}
		if !h.SameEntry(a, b, true) {
			return fmt.Errorf("%s: %q outside the destination root was modified: %+v -> %+v", what, p, *b, *a)
		}
	}
	for p, a := range after {
		if p == "dst" || strings.HasPrefix(p, "dst/") {
			continue
		}
		if before[p] == nil {
			return fmt.Errorf("%s: %q (%s) was created outside the destination root", what, p, a.Kind)
		}
	}
	// (2) every regular file under the destination root that is new or changed carries bytes of a file inside the source root
	srcSha := map[string]string{}
	for _, n := range c.Src.Nodes {
		if n.Kind == h.KFile {
			src := n
			if n.LinkTo != "" {
				src = *c.Src.Index()[n.LinkTo]
			}
			sum := sha256.Sum256(h.Content(src.Seed, src.Size))
			srcSha[hex.EncodeToString(sum[:])] = n.Path
		}
	}
	for p, a := range after {
		if !strings.HasPrefix(p, "dst/") || a.Kind != h.KFile {
			continue
		}
		b := before[p]
		if b != nil && b.Kind == h.KFile && b.Ino == a.Ino && b.Sha == a.Sha {
			continue // untouched old file
		}
		if _, ok := srcSha[a.Sha]; !ok {
			origin := "unknown origin"
			for q, e := range before {
				if e.Kind == h.KFile && e.Sha == a.Sha {
					origin = "the bytes of " + q
				}
			}
			return fmt.Errorf("%s: %q was written with bytes that do not come from inside the source root (%s)", what, p, origin)
		}
	}
	// symlinks met in the destination are replaced or reported as a conflict, never written through:
	// an old destination file that is only reachable through an old symlink keeps its bytes unless the
	// copy legitimately lands on its own path (then its new bytes come from the source, checked above)
	return nil
}

func TestC14(t *testing.T) {
	r := h.NewRunner("C14")
	defer r.Finish(t)
	h.RunWith(t, r, "", genC14, c14Check)
	if t.Failed() {
		return
	}
	t.Run("unpriv", func(t *testing.T) {
		h.ScaleChecks(1, 15, func() { h.RunWith(t, r, "unpriv", genC14Unpriv, c14UnprivCheck) })
	})
}

// ---------------------------------------------------------------------------
// sub-run "unpriv": Copy runs as uid 1000 (chrooted sub-process) into a destination
// directory that belongs to root (mode 0755, or sticky 1777 with root's entries): the
// process may not unlink what is there. Where a source file's name is taken by a symlink
// to a file outside the destination root that uid 1000 may write, the copy has to
// fail; whatever it does, nothing outside the destination root changes.

type c14UnprivCase struct {
	Names   []string `json:"names"`  // source files (sizes differ)
	Links   []string `json:"links"`  // names that are symlinks in the destination
	Target  string   `json:"target"` // where they point
	Sticky  bool     `json:"sticky"` // destination is a sticky world-writable directory
	DstArg  string   `json:"dstarg"`
	Replace bool     `json:"replace"`
}

func genC14Unpriv(t *rapid.T) *c14UnprivCase {
	c := &c14UnprivCase{}
	c.Names = rapid.SliceOfNDistinct(rapid.SampledFrom([]string{"a", "b", "c", "d", "ab"}), 1, 4, func(s string) string { return s }).Draw(t, "names")
	sort.Strings(c.Names)
	c.Links = []string{c.Names[rapid.IntRange(0, len(c.Names)-1).Draw(t, "link")]}
	if rapid.Bool().Draw(t, "firstlink") {
		c.Links = []string{c.Names[0]}
	}
	c.Target = rapid.SampledFrom([]string{"/outside/w", "../outside/w", "/outside/dir/w"}).Draw(t, "target")
	c.Sticky = rapid.IntRange(0, 3).Draw(t, "sticky") == 0
	c.DstArg = rapid.SampledFrom([]string{"/", ".", "sub"}).Draw(t, "dstarg")
	c.Replace = rapid.Bool().Draw(t, "replace")
	return c
}

func c14UnprivCheck(env *h.Env, c *c14UnprivCase) error {
	jail := filepath.Join(env.Scratch, "jail")
	for _, d := range []string{"outside/dir", "src", "dst/sub"} {
		if err := os.MkdirAll(filepath.Join(jail, d), 0o755); err != nil {
			return h.Infra(err)
		}
	}
	// outside files the process may write, and one it may not
	for _, p := range []string{"outside/w", "outside/dir/w"} {
		if err := os.WriteFile(filepath.Join(jail, p), []byte("OUTSIDE writable sentinel "+p), 0o666); err != nil {
			return h.Infra(err)
		}
		os.Chown(filepath.Join(jail, p), 1000, 1000)
	}
	for i, n := range c.Names {
		if err := os.WriteFile(filepath.Join(jail, "src", n), h.Content(uint32(300+i), 30+i), 0o644); err != nil {
			return h.Infra(err)
		}
		os.Chown(filepath.Join(jail, "src", n), 1000, 1000)
	}
	os.Chown(filepath.Join(jail, "src"), 1000, 1000)
	for _, d := range []string{"dst", "dst/sub"} {
		for _, l := range c.Links {
			if err := os.Symlink(c.Target, filepath.Join(jail, d, l)); err != nil {
				return h.Infra(err)
			}
		}
		mode := os.FileMode(0o755)
		if c.Sticky {
			mode = 0o777 | os.ModeSticky
		}
		if err := os.Chmod(filepath.Join(jail, d), mode); err != nil {
			return h.Infra(err)
		}
	}
	os.Chmod(jail, 0o755)
	os.Chmod(env.Scratch, 0o755)
	before, err := h.Snapshot(jail)
	if err != nil {
		return h.Infra(err)
	}
	var res c14JailResult
	if err := runJailed(jail, "copy", 1000, c14JailArg{SrcArg: "/", DstArg: c.DstArg, Opts: h.CpOpts{AlwaysReplace: c.Replace}}, &res); err != nil {
		var crash *helperCrash
		if errors.As(err, &crash) {
			return fmt.Errorf("unprivileged Copy: the copying %v", crash)
		}
		return h.Infra(err)
	}
	after, err := h.Snapshot(jail)
	if err != nil {
		return h.Infra(err)
	}
	env.Class("unprivileged-copy-into-foreign-directory")
	env.NonTrivial()
	if res.Err == "" {
		env.Class("copy-succeeded")
	} else {
		env.Class("copy-failed")
	}
	what := fmt.Sprintf("Copy as uid 1000 (files %q, destination %q owned by root%s, symlinks %q -> %q) -> err=%q", c.Names, c.DstArg, map[bool]string{true: ", sticky", false: ""}[c.Sticky], c.Links, c.Target, res.Err)
	for p, b := range before {
		if p == "dst" || strings.HasPrefix(p, "dst/") {
			continue
		}
		a := after[p]
		if a == nil {
			return fmt.Errorf("%s: %q outside the destination root was removed", what, p)
		}
		if !h.SameEntry(a, b, true) {
			return fmt.Errorf("%s: %q outside the destination root was modified: %+v -> %+v", what, p, *b, *a)
		}
	}
	for p, a := range after {
		if p != "dst" && !strings.HasPrefix(p, "dst/") && before[p] == nil {
			return fmt.Errorf("%s: %q (%s) was created outside the destination root", what, p, a.Kind)
		}
	}
	return nil
}
