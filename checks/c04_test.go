package checks

import (
	"context"
	"encoding/json"
	"errors"
	"fmt"
	"hash"
	"io"
	"os"
	"os/exec"
	"path/filepath"
	"sync/atomic"
	"syscall"
	"testing"
	"time"

	"github.com/tonistiigi/fsutil"
	"github.com/tonistiigi/fsutil/types"
	"pgregory.net/rapid"

	h "verif/harness"
)

// ---------------------------------------------------------------------------
// C04: faults — both ends terminate, success is never reported for a partial tree

type c04Fault struct {
	Kind string `json:"kind"`
	K    int    `json:"k"`
	J    int    `json:"j,omitempty"` // read error: after J bytes
}

type c04Case struct {
	Tree     *h.Tree `json:"tree"`
	Many     int     `json:"many"` // extra flat files (large fan-out)
	Dst      *h.Tree `json:"dst"`
	Capacity int     `json:"capacity"`
	Notify   bool    `json:"notify"`
	Stride   int     `json:"stride"` // enumerate every Stride-th position (1 = all)
	// DstSynced: the prior destination is the result of an earlier complete transfer
	// of this source (all entries, the many files included) plus the drawn edits
	DstSynced bool `json:"dst_synced,omitempty"`
	// DiskSrc: the source is an on-disk tree read through NewFS (no injected source faults)
	DiskSrc bool `json:"disk_src,omitempty"`
	// SlowSendUS: the sender's side of the stream takes this long per packet (a slow
	// link): the receiver's queues fill from the destination side instead
	SlowSendUS int `json:"slow_send_us,omitempty"`
	srcDir     string
	Only       *c04Fault `json:"only,omitempty"` // replay a single fault
}

var c04TreeCfg = h.TreeCfg{
	MaxEntries: 10, MaxDepth: 3, Names: []string{"a", "b", "ab", "a-b", "c", "d"},
	Kinds:     []h.Kind{h.KFile, h.KFile, h.KFile, h.KFile, h.KSymlink, h.KFifo},
	Hardlinks: true, BigFiles: true, BadUTF8: true,
}

func genC04(t *rapid.T) *c04Case {
	c := &c04Case{Tree: h.GenTree(t, c04TreeCfg, "t")}
	c.Capacity = rapid.SampledFrom([]int{0, 1, 32}).Draw(t, "cap")
	c.Notify = rapid.Bool().Draw(t, "notify")
	c.Stride = 1
	if rapid.IntRange(0, 2).Draw(t, "large") == 0 {
		// 128-slot queues on both sides of the diff plus the sender's 128+4 pipeline:
		// 300 and more entries fill all of them at once
		c.Many = rapid.SampledFrom([]int{150, 300, 400, 600}).Draw(t, "many")
		c.Stride = rapid.SampledFrom([]int{29, 41, 59}).Draw(t, "stride")
	}
	if rapid.Bool().Draw(t, "dirtydst") || (c.Many > 0 && rapid.Bool().Draw(t, "dirtydst2")) {
		d := c.Tree
		c.DstSynced = rapid.Bool().Draw(t, "dstsynced") || (c.Many > 0 && rapid.Bool().Draw(t, "dstsynced2"))
		if c.DstSynced {
			d = c04Tree(c)
		}
		for i := 0; i < rapid.IntRange(0, 3).Draw(t, "nedits"); i++ {
			d, _ = h.GenEdit(t, d, fmt.Sprintf("e%d", i), c04TreeCfg.Names)
		}
		c.Dst = d
		h.AlignIdentical(c04Tree(c), c.Dst, false, 0, 0)
	}
	c.DiskSrc = rapid.IntRange(0, 3).Draw(t, "disksrc") == 0
	if c.DiskSrc && rapid.Bool().Draw(t, "latin1name") {
		// a file whose name is not valid UTF-8 (any byte string is a legal name on disk)
		if _, taken := c.Tree.Index()["caf\xe9.txt"]; !taken {
			c.Tree.Nodes = append(c.Tree.Nodes, h.Node{Path: "caf\xe9.txt", Kind: h.KFile, Perm: 0o644, Mtime: 11, Seed: 611, Size: 40})
			c.Tree.Normalize()
		}
	}
	if c.Many > 0 && rapid.Bool().Draw(t, "slowsend") {
		c.SlowSendUS = rapid.SampledFrom([]int{6, 12}).Draw(t, "slowsendus")
	}
	return c
}

func c04Tree(c *c04Case) *h.Tree {
	if c.Many == 0 {
		return c.Tree
	}
	tr := c.Tree.Clone()
	if _, ok := tr.Index()["many"]; !ok {
		tr.Nodes = append(tr.Nodes, h.Node{Path: "many", Kind: h.KDir, Perm: 0o755, Mtime: 5})
		for i := 0; i < c.Many; i++ {
			tr.Nodes = append(tr.Nodes, h.Node{Path: fmt.Sprintf("many/f%04d", i), Kind: h.KFile, Perm: 0o644, Mtime: 7, Seed: uint32(1000 + i), Size: 20 + i%5})
		}
		tr.Normalize()
	}
	return tr
}

var errInjected = errors.New("verif: injected fault")

// spinFor occupies the calling goroutine for about us microseconds (timers are
// too coarse for per-packet delays of a few microseconds).
func spinFor(us int) {
	if us <= 0 {
		return
	}
	for t0 := time.Now(); time.Since(t0) < time.Duration(us)*time.Microsecond; {
	}
}

type c04Counts struct {
	SendS, RecvS, SendR, RecvR int
	Walk, Hasher, Notify       int
	Files                      []string // requested files, in announcement order
}

type c04Run struct {
	res     *h.SyncResult
	fired   bool
	counts  c04Counts
	reqFins bool
}

// c04RunOnce executes one transfer with at most one fault.
func c04RunOnce(tree *h.Tree, dstDir string, c *c04Case, f *c04Fault) *c04Run {
	run := &c04Run{}
	mem := &h.MemFS{T: tree, LinkSizeFull: true}
	var src fsutil.FS = mem
	if c.Capacity != 1 && !c.DiskSrc {
		// (two cases in three: the source is seen through a filter that hides nothing;
		// the faults of the source pass through the library's own view code)
		if fv, err := fsutil.NewFilterFS(mem, &fsutil.FilterOpt{ExcludePatterns: []string{"zz-never-there"}}); err == nil {
			src = fv
		}
	}
	if c.DiskSrc && c.srcDir != "" {
		if dfs, err := fsutil.NewFS(c.srcDir); err == nil {
			src = dfs
		}
	}
	var fired int32
	fire := func() { atomic.StoreInt32(&fired, 1) }
	var hashN, notifyN int32
	opt := fsutil.ReceiveOpt{}
	needHasher := c.Notify || (f != nil && (f.Kind == "hasher" || f.Kind == "notify" || f.Kind == "R.cancel-stalled"))
	var pairRef *h.Pair
	var cancelSend, cancelRecv func()
	if needHasher {
		opt.ContentHasher = func(st *types.Stat) (hash.Hash, error) {
			n := int(atomic.AddInt32(&hashN, 1))
			if f != nil && f.Kind == "hasher" && n == f.K {
				fire()
				return nil, errInjected
			}
			return h.Hasher(st)
		}
		opt.NotifyHashed = func(k fsutil.ChangeKind, p string, fi os.FileInfo, err error) error {
			n := int(atomic.AddInt32(&notifyN, 1))
			if f != nil && f.Kind == "notify" && n == f.K {
				fire()
				return errInjected
			}
			if f != nil && f.Kind == "R.cancel-stalled" && n == f.K && pairRef != nil {
				// hold the consumer of the diff here until the receive loop has stopped
				// making progress (every queue between it and the diff is full), then
				// cancel the receive call and let go
				last, same := -1, 0
				for i := 0; i < 4000 && same < 40; i++ {
					if c := pairRef.R.RecvCount(); c == last {
						same++
					} else {
						last, same = c, 0
					}
					time.Sleep(100 * time.Microsecond)
				}
				fire()
				cancelRecv()
			}
			return nil
		}
	}
	if f != nil {
		switch f.Kind {
		case "walk":
			// (errors of different identity: none of them means "the entry went away")
			mem.WalkErrAt, mem.WalkErr = f.K, [...]error{errInjected, syscall.ESTALE, syscall.EIO, &os.PathError{Op: "lstat", Path: "x", Err: syscall.ESTALE}}[f.K%4]
		case "read":
			// K-th regular non-link file in walk order
			n := 0
			for _, nd := range tree.Nodes {
				if nd.Kind == h.KFile && nd.LinkTo == "" {
					n++
					if n == f.K {
						mem.ReadErrPath, mem.ReadErrAt, mem.ReadErr = nd.Path, f.J, [...]error{errInjected, io.ErrUnexpectedEOF, syscall.EIO, io.ErrNoProgress}[(f.K+f.J)%4]
					}
				}
			}
		case "open":
			// the K-th regular non-link file cannot be opened (it vanished, or may not be read)
			n := 0
			for _, nd := range tree.Nodes {
				if nd.Kind == h.KFile && nd.LinkTo == "" {
					n++
					if n == f.K {
						mem.OpenErr = map[string]error{nd.Path: [...]error{os.ErrNotExist, os.ErrPermission, errInjected}[f.J%3]}
					}
				}
			}
		}
	}
	setup := func(p *h.Pair) {
		pairRef = p
		if c.SlowSendUS > 0 {
			p.S.AfterSend = func(int, *types.Packet) { spinFor(c.SlowSendUS) }
		}
		if f == nil {
			return
		}
		breakBoth := func() {
			fire()
			p.S.Break(errInjected)
			p.R.Break(errInjected)
		}
		switch f.Kind {
		case "S.send":
			p.S.BeforeSend = func(n int, _ *types.Packet) error {
				if n == f.K {
					breakBoth()
					return errInjected
				}
				return nil
			}
		case "S.recv":
			p.S.BeforeRecv = func(n int) error {
				if n == f.K {
					breakBoth()
					return errInjected
				}
				return nil
			}
		case "S.eof":
			// the peer died right before its K-th packet got through, and the
			// transport reports that as a clean end of stream (what a byte stream
			// does when the other process is killed)
			p.S.InsteadOfRecv = func(n int, _ *types.Packet) error {
				if n == f.K {
					fire()
					p.S.Break(io.EOF)
					p.R.Break(errInjected)
					return io.EOF
				}
				return nil
			}
		case "R.eof":
			p.R.InsteadOfRecv = func(n int, _ *types.Packet) error {
				if n == f.K {
					fire()
					p.R.Break(io.EOF)
					p.S.Break(errInjected)
					return io.EOF
				}
				return nil
			}
		case "R.send":
			p.R.BeforeSend = func(n int, _ *types.Packet) error {
				if n == f.K {
					breakBoth()
					return errInjected
				}
				return nil
			}
		case "R.recv":
			p.R.BeforeRecv = func(n int) error {
				if n == f.K {
					breakBoth()
					return errInjected
				}
				return nil
			}
		case "S.cancel":
			p.S.AfterSend = func(n int, _ *types.Packet) {
				spinFor(c.SlowSendUS)
				if n == f.K {
					fire()
					cancelSend()
				}
			}
		case "R.cancel":
			p.R.AfterRecv = func(n int, _ *types.Packet) {
				if n == f.K {
					fire()
					cancelRecv()
				}
			}
		}
	}
	run.res = h.RunSync(src, dstDir, h.SyncOpt{Capacity: c.Capacity, Recv: opt, Setup: setup, CheckLeaks: true,
		SetupCalls: func(cs, cr func()) { cancelSend, cancelRecv = cs, cr }})
	if f != nil && f.Kind == "open" {
		for _, o := range mem.Opens {
			if _, bad := mem.OpenErr[o]; bad {
				fire()
			}
		}
	}
	if f != nil && (f.Kind == "walk" || f.Kind == "read") {
		// these fire inside the source: detect from the source's own counters
		if f.Kind == "walk" && mem.WalkErrAt != 0 {
			fire()
		}
		if f.Kind == "read" && mem.ReadErrPath != "" {
			for _, o := range mem.Opens {
				if o == mem.ReadErrPath {
					fire()
				}
			}
		}
	}
	run.fired = atomic.LoadInt32(&fired) == 1
	p := run.res.Pair
	run.counts = c04Counts{SendS: p.S.SendCount(), RecvS: p.S.RecvCount(), SendR: p.R.SendCount(), RecvR: p.R.RecvCount(), Walk: len(tree.Nodes), Hasher: int(atomic.LoadInt32(&hashN)), Notify: int(atomic.LoadInt32(&notifyN))}
	return run
}

func c04Check(env *h.Env, c *c04Case) error {
	tree := c04Tree(c)
	newDest := func(name string) (string, h.Snap, error) {
		d := filepath.Join(env.Scratch, name)
		if err := os.Mkdir(d, 0o755); err != nil {
			return "", nil, h.Infra(err)
		}
		if c.Dst != nil {
			if err := h.Materialise(c.Dst, d); err != nil {
				return "", nil, h.Infra(err)
			}
		}
		s, err := h.Snapshot(d)
		return d, s, h.Infra(err)
	}
	if c.DiskSrc {
		c.srcDir = filepath.Join(env.Scratch, "src")
		if err := os.Mkdir(c.srcDir, 0o755); err != nil {
			return h.Infra(err)
		}
		if err := h.Materialise(tree, c.srcDir); err != nil {
			return h.Infra(err)
		}
		env.Class("on-disk-source")
	}
	if c.DstSynced {
		env.Class("destination-from-earlier-sync")
	}
	// fault-free reference run: counts the operations
	d0, before0, err := newDest("d0")
	if err != nil {
		return err
	}
	base := c04RunOnce(tree, d0, c, nil)
	if base.res.Stuck != "" {
		return fmt.Errorf("fault-free transfer is stuck:\n%s", base.res.Stuck)
	}
	if base.res.SendErr != nil || base.res.RecvErr != nil {
		return fmt.Errorf("fault-free transfer failed: send=%v recv=%v", base.res.SendErr, base.res.RecvErr)
	}
	if base.res.Leaked != "" {
		return fmt.Errorf("fault-free transfer leaked goroutines:\n%s", base.res.Leaked)
	}
	after0, err := h.Snapshot(d0)
	if err != nil {
		return h.Infra(err)
	}
	if errs := convergenceErrs(after0, before0, tree, 0); errs.Len() > 0 {
		return fmt.Errorf("fault-free transfer: %v", errs.Err())
	}
	h.RemoveAllForce(d0)
	cnt := base.counts
	nfiles := 0
	for _, nd := range tree.Nodes {
		if nd.Kind == h.KFile && nd.LinkTo == "" {
			nfiles++
		}
	}
	var faults []c04Fault
	if c.Only != nil {
		faults = []c04Fault{*c.Only}
	} else {
		add := func(kind string, n int) {
			for k := 1; k <= n; k++ {
				// strided enumeration keeps the first and last positions and a few in the
				// middle (queues between the loops are full only for a while)
				if c.Stride > 1 && k > 6 && k < n-3 && k%c.Stride != 0 && k != n/4 && k != n/3 && k != n/2 && k != 2*n/3 {
					continue
				}
				faults = append(faults, c04Fault{Kind: kind, K: k})
			}
		}
		add("S.send", cnt.SendS+1)
		add("S.recv", cnt.RecvS+1)
		add("R.send", cnt.SendR+1)
		add("R.recv", cnt.RecvR+1)
		add("S.eof", cnt.RecvS)
		add("R.eof", cnt.RecvR)
		add("S.cancel", cnt.SendS)
		add("R.cancel", cnt.RecvR)
		if c.Many >= 300 {
			// cancellation while every queue between the receive loop and the diff is full
			for k := 1; k <= 3; k++ {
				faults = append(faults, c04Fault{Kind: "R.cancel-stalled", K: k})
			}
		}
		if !c.DiskSrc {
			add("walk", cnt.Walk)
		}
		needHN := c.Notify
		if needHN {
			add("hasher", cnt.Hasher)
			add("notify", cnt.Notify)
		} else {
			add("hasher", len(tree.Nodes))
			add("notify", len(tree.Nodes))
		}
		n := 0
		for _, nd := range tree.Nodes {
			if c.DiskSrc {
				break
			}
			if nd.Kind == h.KFile && nd.LinkTo == "" {
				n++
				if c.Stride > 1 && n > 3 && n%c.Stride != 0 {
					continue
				}
				faults = append(faults, c04Fault{Kind: "open", K: n, J: n})
				for _, j := range []int{0, 1, 32767, 32768, 32769, nd.Size - 1} {
					if j >= 0 && j < nd.Size || j == 0 {
						faults = append(faults, c04Fault{Kind: "read", K: n, J: j})
					}
				}
			}
		}
	}
	runs, fired, cancelNeedsTeardown := 0, 0, 0
	kinds := map[string]int{}
	for i, f := range faults {
		f := f
		dname := fmt.Sprintf("d%d", i+1)
		d, before, err := newDest(dname)
		if err != nil {
			return err
		}
		run := c04RunOnce(tree, d, c, &f)
		runs++
		what := fmt.Sprintf("fault %s at k=%d j=%d (capacity %d, %d entries, notify=%v)", f.Kind, f.K, f.J, c.Capacity, len(tree.Nodes), c.Notify)
		fail := func(format string, args ...any) error {
			// make the replay pin this one fault
			c.Only = &f
			return fmt.Errorf(what+": "+format, args...)
		}
		if run.res.Stuck != "" && (f.Kind == "S.cancel" || f.Kind == "R.cancel" || f.Kind == "R.cancel-stalled") && run.res.StuckAfterTeardown == "" {
			// cancelling the context handed to a call does not by itself tear the stream
			// down; the statement promises a return "once the stream is torn down", which
			// the harness then did: both calls returned
			cancelNeedsTeardown++
			if run.fired {
				fired++
				kinds[f.Kind]++
			}
			h.RemoveAllForce(d)
			continue
		}
		if run.res.Stuck != "" && h.MutualSendDeadlock(run.res.Stuck) {
			if err := env.Known("mutual-send-deadlock-after-error", "%s: both ends left their receive loops after the error while each still has SendMsg calls blocked on the stream (capacity %d): neither call returns", what, c.Capacity); err != nil {
				c.Only = &f
				return err
			}
			h.RemoveAllForce(d)
			continue
		}
		if run.res.Stuck != "" {
			return fail("Send/Receive never returned although the stream was torn down as far as the transport model allows; blocked goroutines:\n%s", run.res.Stuck)
		}
		if run.res.Leaked != "" {
			return fail("goroutines started by the transfer are still alive after both calls returned:\n%s", run.res.Leaked)
		}
		if run.fired {
			fired++
			kinds[f.Kind]++
		}
		after, err := h.Snapshot(d)
		if err != nil {
			return h.Infra(err)
		}
		if run.res.RecvErr == nil {
			if errs := convergenceErrs(after, before, tree, 0); errs.Len() > 0 {
				return fail("Receive returned success (send err: %v) but the destination is not the source view: %v", run.res.SendErr, errs.Err())
			}
		}
		if run.res.SendErr == nil {
			finDelivered := false
			for _, r := range run.res.Pair.Log() {
				if r.From == "R" && r.Type == "FIN" && r.Delivered != 0 {
					finDelivered = true
				}
			}
			if !finDelivered {
				return fail("Send returned success (recv err: %v) although the receiver's FIN never reached it", run.res.RecvErr)
			}
		}
		// a later fault-free transfer into whatever was left behind converges
		if run.res.RecvErr != nil || run.res.SendErr != nil {
			again := c04RunOnce(tree, d, c, nil)
			if again.res.Stuck != "" {
				return fail("the follow-up fault-free transfer is stuck:\n%s", again.res.Stuck)
			}
			if again.res.SendErr != nil || again.res.RecvErr != nil {
				return fail("the follow-up fault-free transfer into the leftovers failed: send=%v recv=%v", again.res.SendErr, again.res.RecvErr)
			}
			after2, err := h.Snapshot(d)
			if err != nil {
				return h.Infra(err)
			}
			if errs := convergenceErrs(after2, after, tree, 0); errs.Len() > 0 {
				return fail("the follow-up fault-free transfer did not converge: %v", errs.Err())
			}
		}
		h.RemoveAllForce(d)
	}
	env.R.CountN(runs, fired, "")
	for k, n := range kinds {
		for i := 0; i < n; i++ {
			env.Class("fired-" + k)
		}
	}
	if c.Many > 0 {
		env.Class("large-fanout")
	}
	if fired > 0 {
		env.NonTrivial()
	}
	for i := 0; i < cancelNeedsTeardown; i++ {
		env.Class("cancel-returned-only-after-teardown")
	}
	env.Note("fault_runs", runs)
	env.Note("fired", fired)
	return nil
}

var _ = context.Background

func TestC04(t *testing.T) {
	r := h.NewRunner("C04")
	defer r.Finish(t)
	h.RunWith(t, r, "", genC04, c04Check)
	if t.Failed() {
		return
	}
	t.Run("sigkill", func(t *testing.T) { h.RunWith(t, r, "sigkill", genC04Kill, c04KillCheck) })
}

// ---------------------------------------------------------------------------
// SIGKILL of the receiving process after k packets, then a follow-up transfer

type c04KillCase struct {
	Tree *h.Tree `json:"tree"`
	Many int     `json:"many"`
	Dst  *h.Tree `json:"dst"`
	Ks   []int   `json:"ks"` // kill positions in permille of the fault-free packet count
}

func genC04Kill(t *rapid.T) *c04KillCase {
	c := &c04KillCase{Tree: h.GenTree(t, c04TreeCfg, "t")}
	if rapid.IntRange(0, 2).Draw(t, "large") == 0 {
		c.Many = rapid.SampledFrom([]int{40, 150}).Draw(t, "many")
	}
	if rapid.Bool().Draw(t, "dirtydst") {
		d := c.Tree
		for i := 0; i < rapid.IntRange(1, 3).Draw(t, "nedits"); i++ {
			d, _ = h.GenEdit(t, d, fmt.Sprintf("e%d", i), c04TreeCfg.Names)
		}
		c.Dst = d
		h.AlignIdentical(c.Tree, c.Dst, false, 0, 0)
	}
	c.Ks = rapid.SliceOfN(rapid.IntRange(0, 1000), 2, 6).Draw(t, "ks")
	return c
}

type recvProcArg struct {
	Dest string `json:"dest"`
}

// recvProcMain is the receiving process: Receive over stdin/stdout.
func recvProcMain() int {
	var a recvProcArg
	if err := json.Unmarshal([]byte(os.Getenv("VERIF_HELPER_ARG")), &a); err != nil {
		fmt.Fprintln(os.Stderr, "bad arg:", err)
		return 3
	}
	st := &h.PipeStream{Ctx: context.Background(), R: os.Stdin, W: os.Stdout}
	if err := fsutil.Receive(context.Background(), st, a.Dest, fsutil.ReceiveOpt{}); err != nil {
		fmt.Fprintln(os.Stderr, "receive:", err)
		return 1
	}
	return 0
}

// c04KillRun runs Send in this process against a receiving sub-process that is
// SIGKILLed right before the sender's k-th SendMsg (k <= 0: never).
func c04KillRun(tree *h.Tree, dest string, k int) (sendErr error, sent int, stuck string, childExit error, err error) {
	exe, err := os.Executable()
	if err != nil {
		return nil, 0, "", nil, err
	}
	arg, _ := json.Marshal(recvProcArg{Dest: dest})
	cmd := exec.Command(exe)
	cmd.Env = append(os.Environ(), "VERIF_HELPER=recvproc", "VERIF_HELPER_ARG="+string(arg))
	toChild, err := cmd.StdinPipe()
	if err != nil {
		return nil, 0, "", nil, err
	}
	fromChild, err := cmd.StdoutPipe()
	if err != nil {
		return nil, 0, "", nil, err
	}
	var stderr limitedBuf
	cmd.Stderr = &stderr
	if err := cmd.Start(); err != nil {
		return nil, 0, "", nil, err
	}
	st := &h.PipeStream{Ctx: context.Background(), R: fromChild, W: toChild}
	if k > 0 {
		st.BeforeSend = func(n int) {
			if n == k {
				cmd.Process.Kill()
				cmd.Process.Wait() // the kernel has closed the child's pipe ends when this returns
			}
		}
	}
	done := make(chan struct{})
	go func() {
		sendErr = fsutil.Send(context.Background(), st, &h.MemFS{T: tree, LinkSizeFull: true}, nil)
		toChild.Close() // the transport model: the stream ends when the call returns
		close(done)
	}()
	stuck = h.WaitOrStuck(done, nil)
	if stuck != "" {
		cmd.Process.Kill()
		toChild.Close()
		fromChild.Close()
		select {
		case <-done:
		case <-time.After(5 * time.Second):
		}
	}
	childExit = cmd.Wait()
	return sendErr, int(st.Sent), stuck, childExit, nil
}

func c04KillCheck(env *h.Env, c *c04KillCase) error {
	tree := c04Tree(&c04Case{Tree: c.Tree, Many: c.Many})
	mk := func(name string) (string, error) {
		d := filepath.Join(env.Scratch, name)
		if err := os.Mkdir(d, 0o755); err != nil {
			return "", h.Infra(err)
		}
		if c.Dst != nil {
			if err := h.Materialise(c.Dst, d); err != nil {
				return "", h.Infra(err)
			}
		}
		return d, nil
	}
	d0, err := mk("k0")
	if err != nil {
		return err
	}
	before0, _ := h.Snapshot(d0)
	sendErr, total, stuck, childExit, err := c04KillRun(tree, d0, 0)
	if err != nil {
		return h.Infra(err)
	}
	if stuck != "" || sendErr != nil || childExit != nil {
		return fmt.Errorf("fault-free transfer to a receiving sub-process failed: send=%v child=%v stuck=%v", sendErr, childExit, stuck != "")
	}
	after0, err := h.Snapshot(d0)
	if err != nil {
		return h.Infra(err)
	}
	if errs := convergenceErrs(after0, before0, tree, 0); errs.Len() > 0 {
		return fmt.Errorf("fault-free transfer to a receiving sub-process: %v", errs.Err())
	}
	seen := map[int]bool{}
	for i, pm := range c.Ks {
		k := 1 + pm*(total-1)/1000
		if seen[k] {
			continue
		}
		seen[k] = true
		d, err := mk(fmt.Sprintf("k%d", i+1))
		if err != nil {
			return err
		}
		sendErr, sent, stuck, _, err := c04KillRun(tree, d, k)
		if err != nil {
			return h.Infra(err)
		}
		what := fmt.Sprintf("receiver process killed before the sender's packet %d of %d (%d entries)", k, total, len(tree.Nodes))
		if stuck != "" {
			return fmt.Errorf("%s: Send never returned; blocked goroutines:\n%s", what, stuck)
		}
		if sendErr == nil {
			return fmt.Errorf("%s: Send returned success although the receiver never acknowledged completion (%d packets sent)", what, sent)
		}
		env.R.CountN(1, 1, "sigkill-run")
		// a later fault-free transfer into whatever the killed run left behind converges
		leftover, err := h.Snapshot(d)
		if err != nil {
			return h.Infra(err)
		}
		res := h.RunSync(&h.MemFS{T: tree, LinkSizeFull: true}, d, h.SyncOpt{Capacity: 8})
		if res.Stuck != "" {
			return fmt.Errorf("%s: the follow-up transfer is stuck:\n%s", what, res.Stuck)
		}
		if res.SendErr != nil || res.RecvErr != nil {
			return fmt.Errorf("%s: the follow-up transfer into the leftovers failed: send=%v recv=%v", what, res.SendErr, res.RecvErr)
		}
		after, err := h.Snapshot(d)
		if err != nil {
			return h.Infra(err)
		}
		if errs := convergenceErrs(after, leftover, tree, 0); errs.Len() > 0 {
			return fmt.Errorf("%s: the follow-up transfer did not converge: %v", what, errs.Err())
		}
		h.RemoveAllForce(d)
	}
	env.NonTrivial()
	env.Class("sigkill-base")
	return nil
}
