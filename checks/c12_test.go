package checks

import (
	"fmt"
	"os"
	"strconv"
	"strings"
	"testing"

	"github.com/tonistiigi/fsutil"
	"github.com/tonistiigi/fsutil/types"
	"pgregory.net/rapid"

	h "verif/harness"
)

// ---------------------------------------------------------------------------
// C12: Validator accepts exactly ordered, parent-closed, contained sequences;
// ComparePath is the component order.

type c12Case struct {
	Seq []h.SpecElem `json:"seq"`
}

var c12Alphabet = []string{"", ".", "..", "a", "b", "ab", "a-b", "a/b", "a/c", "a/b/c", "b/a",
	"../a", "a/..", "a/../b", "/a", "a/", "a//b", "./a", "..a",
	// first bytes below '.', where a root record keyed "." instead of "" would sort wrongly
	"-a", "-a/x", "-ab", "+", "+/a",
	// names that merely end in dots
	"a..", "a../x", "...", ".../x",
	// a component as long as file systems allow, and one beyond that (length is not the validator's business)
	c12Long255, "a/" + c12Long255, c12Long255 + "n/x"}

var c12Long255 = strings.Repeat("n", 255)

func shardInfo() (int, int) {
	sh, _ := strconv.Atoi(os.Getenv("VERIF_SHARD"))
	n, _ := strconv.Atoi(os.Getenv("VERIF_NSHARDS"))
	if n <= 0 {
		n = 1
	}
	return sh, n
}

// validatorFirstReject runs a fresh Validator over seq and returns the index
// of the first rejected element or -1.
func validatorFirstReject(seq []h.SpecElem) (idx int) {
	defer func() {
		if p := recover(); p != nil {
			idx = -2 // the validator panicked: never equal to the specification's verdict
		}
	}()
	var v fsutil.Validator
	for i, e := range seq {
		var err error
		switch e.Kind {
		case h.SpecDir:
			err = v.HandleChange(fsutil.ChangeKindAdd, e.Path, &fsutil.StatInfo{Stat: &types.Stat{Path: e.Path, Mode: uint32(os.ModeDir | 0o755)}}, nil)
		case h.SpecFile:
			err = v.HandleChange(fsutil.ChangeKindAdd, e.Path, &fsutil.StatInfo{Stat: &types.Stat{Path: e.Path, Mode: 0o644}}, nil)
		case h.SpecDelete:
			err = v.HandleChange(fsutil.ChangeKindDelete, e.Path, nil, nil)
		case h.SpecDirMod:
			err = v.HandleChange(fsutil.ChangeKindModify, e.Path, &fsutil.StatInfo{Stat: &types.Stat{Path: e.Path, Mode: uint32(os.ModeDir | 0o755)}}, nil)
		case h.SpecFileMod:
			err = v.HandleChange(fsutil.ChangeKindModify, e.Path, &fsutil.StatInfo{Stat: &types.Stat{Path: e.Path, Mode: 0o644}}, nil)
		}
		if err != nil {
			return i
		}
	}
	return -1
}

func c12Check(env *h.Env, c *c12Case) error {
	want := h.StreamSpec(c.Seq)
	got := validatorFirstReject(c.Seq)
	if len(c.Seq) >= 2 && (want == -1 || want >= 1) {
		env.NonTrivial()
	}
	if want == -1 {
		env.Class("accepted")
	} else {
		env.Class("rejected")
	}
	depth := 0
	for _, e := range c.Seq {
		if d := strings.Count(e.Path, "/"); d > depth {
			depth = d
		}
	}
	if depth >= 9 {
		env.Class("depth>=10")
	}
	if got != want {
		return fmt.Errorf("validator first-reject index %d, specification %d, sequence %s", got, want, fmtSeq(c.Seq))
	}
	return nil
}

func fmtSeq(s []h.SpecElem) string {
	var parts []string
	for _, e := range s {
		parts = append(parts, fmt.Sprintf("%s:%q", [...]string{"dir", "file", "del", "dir(modified)", "file(modified)"}[e.Kind], e.Path))
	}
	return "[" + strings.Join(parts, " ") + "]"
}

// c12Exhaustive enumerates every sequence up to length L over alphabet×kinds.
// A sequence's first offending index is decided by its shortest rejected
// prefix, so it suffices to extend only accepted prefixes and compare the
// verdict on each one-element extension: this covers all 57^1+…+57^L
// sequences.
func c12Exhaustive(t *testing.T, r *h.Runner, L int) {
	sh, n := shardInfo()
	type sym = h.SpecElem
	var syms []sym
	for _, p := range c12Alphabet {
		for k := h.SpecDir; k <= h.SpecFileMod; k++ {
			syms = append(syms, sym{Path: p, Kind: k})
		}
	}
	visited, nontriv, covered := 0, 0, 0
	pow := func(b, e int) int {
		x := 1
		for ; e > 0; e-- {
			x *= b
		}
		return x
	}
	failed := false
	var rec func(prefix []sym)
	rec = func(prefix []sym) {
		if failed {
			return
		}
		for si, s := range syms {
			if len(prefix) == 0 && si%n != sh {
				continue
			}
			seq := append(append([]sym{}, prefix...), s)
			want := h.StreamSpec(seq)
			got := validatorFirstReject(seq)
			visited++
			if len(seq) >= 2 {
				nontriv++
			}
			if visited%5000 == 1 {
				r.Sample(map[string]any{"exhaustive_sequence": fmtSeq(seq), "spec_first_reject": want, "validator_first_reject": got})
			}
			if got != want {
				failed = true
				r.Violation(t, &c12Case{Seq: seq}, fmt.Errorf("validator first-reject index %d, specification %d, sequence %s", got, want, fmtSeq(seq)))
				return
			}
			if want == -1 {
				covered++
				if len(seq) < L {
					rec(seq)
				}
			} else {
				// every extension of a rejected sequence is rejected at the same index
				for l := len(seq); l <= L; l++ {
					covered += pow(len(syms), l-len(seq))
				}
			}
		}
	}
	rec(nil)
	r.CountN(visited, nontriv, "exhaustive")
	r.AddExtra("exhaustive_sequences_covered", covered)
	r.Extra("exhaustive_bound", fmt.Sprintf("all sequences of length <= %d over %d symbols (%d paths x {dir,file,delete,modified dir,modified file})", L, len(syms), len(c12Alphabet)))
	r.Extra("exhaustive", !failed)
}

var c12OrderPaths = []string{
	"", "a", "b", "ab", "a-b", "a b", "a.b", "a0", "a/b", "a/c", "a/b/c", "a-b/c", "a.b/c", "a0/c", "ab/c",
	"a/", "a//b", "/", "/a", ".", "..", "../a", "a/..", "\x01", "a\x01", "a/\x01", "a\x01/b", "\xff", "a\xff", "a/\xff", "a\xff/b",
	"a.", "a./b", "a/.", "a/.b", "a0b", "a/0", "a-", "a-/b", "a!", "a!/b", "a+", "a,b", "a/b/c/d", "a/b.c", "a/b-c", "a/b/", "a/b0",
	"b/a", "b.a", "b-a", "b", "B", "A/b", "é", "é/a", "éa", "日本", "日本/a", "日/本", "a/é", "foo/a", "foo.2", "foo-old", "foo2/x", "foo",
}

func sign(x int) int {
	switch {
	case x < 0:
		return -1
	case x > 0:
		return 1
	}
	return 0
}

func c12OrderAxioms(t *testing.T, r *h.Runner) {
	var ps []string
	seen := map[string]bool{}
	for _, p := range c12OrderPaths {
		if !seen[p] {
			seen[p] = true
			ps = append(ps, p)
		}
	}
	n := 0
	bad := func(msg string, c any) {
		r.Violation(t, c, fmt.Errorf("%s", msg))
	}
	for i, a := range ps {
		if fsutil.ComparePath(a, a) != 0 {
			bad(fmt.Sprintf("ComparePath(%q,%q) != 0 (irreflexivity)", a, a), map[string]any{"a": a})
			return
		}
		for j, b := range ps {
			n++
			got := sign(fsutil.ComparePath(a, b))
			want := h.CmpComponents(a, b)
			if got != want {
				bad(fmt.Sprintf("ComparePath(%q,%q)=%d, component order says %d", a, b, got, want), map[string]any{"a": a, "b": b})
				return
			}
			if got != -sign(fsutil.ComparePath(b, a)) {
				bad(fmt.Sprintf("ComparePath not antisymmetric on (%q,%q)", a, b), map[string]any{"a": a, "b": b})
				return
			}
			if i != j && got == 0 {
				bad(fmt.Sprintf("ComparePath(%q,%q)=0 for distinct paths (totality)", a, b), map[string]any{"a": a, "b": b})
				return
			}
		}
	}
	// transitivity over all triples
	for _, a := range ps {
		for _, b := range ps {
			if fsutil.ComparePath(a, b) >= 0 {
				continue
			}
			for _, c := range ps {
				n++
				if fsutil.ComparePath(b, c) < 0 && fsutil.ComparePath(a, c) >= 0 {
					bad(fmt.Sprintf("ComparePath not transitive on (%q,%q,%q)", a, b, c), map[string]any{"a": a, "b": b, "c": c})
					return
				}
			}
		}
	}
	// every pair of byte strings of length <= 3 over an alphabet around the
	// separator (NUL, 0x01, '-', '.', '/', '0', 'a', 0xc3, 0xa8, 0xa9, 0xff): agreement with the
	// component order (a total order, so antisymmetry/totality/transitivity follow)
	alpha := []byte{0, 1, '-', '.', '/', '0', 'a', 0xc3, 0xa8, 0xa9, 0xff} // 0xc3 0xa8 / 0xc3 0xa9: two characters that share their UTF-8 lead byte
	short := []string{""}
	for l, prev := 1, []string{""}; l <= 3; l++ {
		var next []string
		for _, p := range prev {
			for _, b := range alpha {
				next = append(next, p+string([]byte{b}))
			}
		}
		short = append(short, next...)
		prev = next
	}
	for _, a := range short {
		for _, b := range short {
			n++
			if got, want := sign(fsutil.ComparePath(a, b)), h.CmpComponents(a, b); got != want {
				bad(fmt.Sprintf("ComparePath(%q,%q)=%d, component order says %d", a, b, got, want), map[string]any{"a": h.BStr(a), "b": h.BStr(b)})
				return
			}
		}
	}
	r.CountN(n, n/2, "order-axioms")
	r.Sample(map[string]any{"order_axiom_paths": len(ps), "order_short_strings": len(short), "example": []string{"foo/a", "foo.2", "a\x01/b"}})
}

// genC12 builds random sequences by mutating legal listings, including deep
// chains (the validator keeps a growable stack of parent directories).
func genC12(t *rapid.T) *c12Case {
	names := []string{"a", "b", "ab", "a-b", "a.b", "a0", "c", "é", "A", ".x", "..a", "z"}
	var seq []h.SpecElem
	mode := rapid.IntRange(0, 3).Draw(t, "mode")
	var rec func(prefix string, depth, budget int) int
	maxDepth := rapid.SampledFrom([]int{2, 3, 4, 12, 24, 46}).Draw(t, "maxdepth")
	rec = func(prefix string, depth, budget int) int {
		if budget <= 0 {
			return 0
		}
		k := rapid.IntRange(1, 3).Draw(t, "nchild")
		used := 0
		// children must be ascending: pick a sorted subset of names
		start := 0
		for c := 0; c < k && start < len(sortedNames) && used < budget; c++ {
			idx := rapid.IntRange(start, len(sortedNames)-1).Draw(t, "name")
			start = idx + 1
			p := sortedNames[idx]
			if prefix != "" {
				p = prefix + "/" + p
			}
			kind := h.SpecKind(rapid.IntRange(0, 4).Draw(t, "kind"))
			if depth+1 < maxDepth && maxDepth > 4 && c == 0 {
				kind = h.SpecDir // drive deep
			}
			seq = append(seq, h.SpecElem{Path: p, Kind: kind})
			used++
			if (kind == h.SpecDir || kind == h.SpecDirMod) && depth+1 < maxDepth {
				used += rec(p, depth+1, budget-used)
			}
		}
		return used
	}
	_ = names
	rec("", 0, rapid.IntRange(1, 60).Draw(t, "budget"))
	// mutations
	nm := 0
	if mode > 0 {
		nm = rapid.IntRange(1, 3).Draw(t, "nmut")
	}
	for i := 0; i < nm && len(seq) > 0; i++ {
		j := rapid.IntRange(0, len(seq)-1).Draw(t, "mutpos")
		switch rapid.IntRange(0, 7).Draw(t, "mut") {
		case 0: // duplicate an element later
			k := rapid.IntRange(j, len(seq)-1).Draw(t, "dupto")
			e := seq[j]
			e.Kind = h.SpecKind(rapid.IntRange(0, 4).Draw(t, "dupkind"))
			seq = append(seq[:k+1], append([]h.SpecElem{e}, seq[k+1:]...)...)
		case 1: // swap neighbours
			if j+1 < len(seq) {
				seq[j], seq[j+1] = seq[j+1], seq[j]
			}
		case 2: // drop (maybe a parent)
			seq = append(seq[:j], seq[j+1:]...)
		case 3: // replace by an ill-formed path
			seq[j].Path = rapid.SampledFrom(c12Alphabet).Draw(t, "bad")
		case 4: // turn a dir into a file/delete (children lose their parent)
			seq[j].Kind = h.SpecKind(rapid.IntRange(1, 2).Draw(t, "tokind"))
		case 5: // decorate path
			seq[j].Path = rapid.SampledFrom([]string{"./", "../", "/", ""}).Draw(t, "pre") + seq[j].Path + rapid.SampledFrom([]string{"", "/", "/.", "/..", "//x"}).Draw(t, "suf")
		case 6: // jump back to an earlier sibling name deep in the tree
			if idx := strings.LastIndex(seq[j].Path, "/"); idx >= 0 {
				seq = append(seq, h.SpecElem{Path: seq[j].Path[:idx] + "/" + rapid.SampledFrom(sortedNames).Draw(t, "sib"), Kind: h.SpecKind(rapid.IntRange(0, 4).Draw(t, "sibkind"))})
			}
		case 7: // re-announce an ancestor after its subtree
			if idx := strings.Index(seq[j].Path, "/"); idx >= 0 {
				cut := rapid.IntRange(1, strings.Count(seq[j].Path, "/")).Draw(t, "anc")
				parts := strings.Split(seq[j].Path, "/")
				seq = append(seq, h.SpecElem{Path: strings.Join(parts[:cut], "/"), Kind: h.SpecKind(rapid.IntRange(0, 4).Draw(t, "anckind"))})
			}
		}
	}
	return &c12Case{Seq: seq}
}

var sortedNames = []string{" x", "#t", "$R", "+", "-a", "-ab", "..a", ".x", "A", "a", "a-b", "a.b", "a0", "ab", "b", "c", "z", "é"}

func TestC12(t *testing.T) {
	r := h.NewRunner("C12")
	defer r.Finish(t)
	if os.Getenv("VERIF_REPLAY") == "" {
		L := 3
		if r.Thorough() {
			L = 4
		}
		c12Exhaustive(t, r, L)
		if sh, _ := shardInfo(); sh == 0 {
			c12OrderAxioms(t, r)
		}
		if t.Failed() {
			return
		}
	}
	h.RunWith(t, r, "", genC12, c12Check)
}

// FuzzC12Validator: bytes -> path list (split on 0x00; first byte of each
// element selects the kind).
func FuzzC12Validator(f *testing.F) {
	f.Add([]byte("\x00a\x00\x00a/b\x00\x01a/c"))
	f.Add([]byte("\x00..\x00\x01../x"))
	f.Add([]byte("\x00.\x00\x01a"))
	f.Add([]byte("\x00a\x00\x00a/b\x00\x00a/b/c\x00\x00a/b/c/d\x00\x00a/b/c/d/e\x00\x00a/b/c/d/e/f\x00\x00a/b/c/d/e/f/g\x00\x00a/b/c/d/e/f/g/h\x00\x00a/b/c/d/e/f/g/h/i\x00\x00a/b/c/d/e/f/g/h/i/j\x00\x01a/b/c/d/e/f/g/h/i/j/k\x00\x01a/b/c/d/e/f/g/h/i/a"))
	f.Fuzz(func(t *testing.T, data []byte) {
		var seq []h.SpecElem
		for _, part := range strings.Split(string(data), "\x00") {
			if part == "" {
				continue
			}
			seq = append(seq, h.SpecElem{Kind: h.SpecKind(part[0] % 5), Path: part[1:]})
			if len(seq) > 64 {
				break
			}
		}
		want := h.StreamSpec(seq)
		got := validatorFirstReject(seq)
		if got != want {
			t.Fatalf("validator first-reject %d (-2 = panic), specification %d, sequence %s", got, want, fmtSeq(seq))
		}
	})
}
