package checks

import (
	"context"
	"fmt"
	"os"
	"path/filepath"
	"sort"
	"strings"
	"testing"

	fscopy "github.com/tonistiigi/fsutil/copy"
	"pgregory.net/rapid"

	h "verif/harness"
)

// ---------------------------------------------------------------------------
// C15: copy onto existing content follows overlay rules and is idempotent

type c15Case struct {
	Src    *h.Tree  `json:"src"`
	Dst    *h.Tree  `json:"dst"`
	SrcArg string   `json:"srcarg"`
	DstArg string   `json:"dstarg"`
	Opts   h.CpOpts `json:"opts"`
}

var c15TreeCfg = h.TreeCfg{
	MaxEntries: 7, MaxDepth: 3, Names: []string{"a", "b", "c", "ab"},
	Kinds:     []h.Kind{h.KFile, h.KFile, h.KFile, h.KSymlink, h.KFifo},
	Hardlinks: true, SymTargets: []string{"zz", "a", "../b", "/c", "./a", "b/", "a//b", "zz/../a"}, UncleanTargets: true,
}

func genC15(t *rapid.T) *c15Case {
	c := &c15Case{Src: h.GenTree(t, c15TreeCfg, "src"), Dst: h.GenTree(t, c15TreeCfg, "dst")}
	c.Opts.DirContents = rapid.Bool().Draw(t, "dircontents")
	defer func() {
		// several matches may write the same target; the copier's inode bookkeeping is
		// only meaningful when every target is written once, so hard-linked sources are
		// combined with single-source copies only
		if c.Opts.Wildcards {
			for i := range c.Src.Nodes {
				c.Src.Nodes[i].LinkTo = ""
			}
		}
	}()
	c.Opts.AlwaysReplace = rapid.IntRange(0, 2).Draw(t, "replace") == 0
	// source argument
	switch k := rapid.IntRange(0, 5).Draw(t, "srckind"); {
	case k <= 1 || len(c.Src.Nodes) == 0:
		c.SrcArg = "/"
	case k <= 3:
		c.SrcArg = c.Src.Nodes[rapid.IntRange(0, len(c.Src.Nodes)-1).Draw(t, "srcnode")].Path
		// follow-links: the argument names a symbolic link and stands for what it points to
		// (targets that step back over a name - "x/../a" - are resolved lexically by the
		// library and by the kernel's rules in the model: C18 lists that difference; such
		// trees are copied without follow-links here)
		lexical := false
		for _, n := range c.Src.Nodes {
			if n.Kind == h.KSymlink {
				named := false
				for _, cm := range strings.Split(n.Target, "/") {
					switch cm {
					case "", ".":
					case "..":
						if named {
							lexical = true
						}
					default:
						named = true
					}
				}
				// (likewise a trailing separator, which the kernel takes as "must be a directory")
				if strings.HasSuffix(n.Target, "/") || strings.HasSuffix(n.Target, "/.") {
					lexical = true
				}
			}
		}
		if rapid.Bool().Draw(t, "follow") && !lexical {
			c.Opts.Follow = true
			var links []string
			for _, n := range c.Src.Nodes {
				if n.Kind == h.KSymlink {
					links = append(links, n.Path)
				}
			}
			if len(links) > 0 {
				c.SrcArg = rapid.SampledFrom(links).Draw(t, "srclink")
			}
		}
	default:
		c.Opts.Wildcards = true
		c.SrcArg = rapid.SampledFrom([]string{"*", "a*", "?", "*/a", "a/*", "*b", "[ab]", "zz*"}).Draw(t, "glob")
	}
	// destination argument: never through or at a symlink (that is C14's domain)
	didx := c.Dst.Index()
	viaSymlink := func(p string) bool {
		comps := strings.Split(p, "/")
		cur := ""
		for _, cm := range comps {
			if cur == "" {
				cur = cm
			} else {
				cur += "/" + cm
			}
			if n, ok := didx[cur]; ok && n.Kind == h.KSymlink {
				return true
			}
		}
		return false
	}
	var cands []string
	for _, n := range c.Dst.Nodes {
		if !viaSymlink(n.Path) {
			cands = append(cands, n.Path)
		}
	}
	switch k := rapid.IntRange(0, 6).Draw(t, "dstkind"); {
	case k == 0:
		c.DstArg = "/"
	case k <= 3 && len(cands) > 0:
		c.DstArg = cands[rapid.IntRange(0, len(cands)-1).Draw(t, "dstnode")]
	case k == 4:
		c.DstArg = rapid.SampledFrom([]string{"new", "n1/n2/n3", "n1/new"}).Draw(t, "newdst")
	default:
		// a new name below an existing entry (directory or obstacle)
		if len(cands) > 0 {
			c.DstArg = cands[rapid.IntRange(0, len(cands)-1).Draw(t, "under")] + "/" + rapid.SampledFrom([]string{"new", "a", "n1/n2"}).Draw(t, "leaf")
		} else {
			c.DstArg = "new"
		}
	}
	if viaSymlink(strings.Trim(c.DstArg, "/")) {
		c.DstArg = "new"
	}
	if c.DstArg != "/" && rapid.IntRange(0, 3).Draw(t, "trailing") == 0 {
		c.DstArg += "/"
	}
	// several matches copied to one non-directory path overwrite each other (cp
	// refuses that outright): wildcard sources go to a directory-like destination
	if c.Opts.Wildcards && !strings.HasSuffix(c.DstArg, "/") {
		if n, ok := didx[c.DstArg]; !ok || n.Kind != h.KDir {
			c.DstArg += "/"
		}
	}
	return c
}

func c15Real(c *c15Case, srcRoot, dstRoot string) error {
	ci := fscopy.CopyInfo{CopyDirContents: c.Opts.DirContents, AlwaysReplaceExistingDestPaths: c.Opts.AlwaysReplace, AllowWildcards: c.Opts.Wildcards, FollowLinks: c.Opts.Follow}
	return fscopy.Copy(context.Background(), srcRoot, c.SrcArg, dstRoot, c.DstArg, fscopy.WithCopyInfo(ci))
}

// c15Compare checks the destination against the model state.
func c15Compare(st *h.CpState, after, before, srcSnap h.Snap) *h.Errs {
	var errs h.Errs
	var wantPaths []string
	for p := range st.Nodes {
		wantPaths = append(wantPaths, p)
	}
	sort.Strings(wantPaths)
	got := append([]string{}, after.Paths()...)
	sort.Strings(got)
	if !sameStrings(got, wantPaths) {
		errs.Addf("destination holds %v, overlay model predicts %v", got, wantPaths)
		return &errs
	}
	for _, p := range wantPaths {
		a := after[p]
		n := st.Nodes[p]
		if a.Kind != n.Kind {
			errs.Addf("%q is a %s, model predicts %s", p, a.Kind, n.Kind)
			continue
		}
		if sp, copied := st.From[p]; copied {
			s := srcSnap[sp]
			if sp == "" {
				s = srcSnap["."]
			}
			if a.Kind != h.KSymlink && a.Perm != s.Perm {
				errs.Addf("%q (from %q): mode %04o want %04o", p, sp, a.Perm, s.Perm)
			}
			if a.Uid != s.Uid || a.Gid != s.Gid {
				errs.Addf("%q (from %q): owner %d:%d want %d:%d", p, sp, a.Uid, a.Gid, s.Uid, s.Gid)
			}
			switch a.Kind {
			case h.KFile:
				if a.Sha != s.Sha {
					errs.Addf("%q (from %q): content differs from the source", p, sp)
				}
			case h.KSymlink:
				if a.Target != s.Target {
					errs.Addf("%q (from %q): target %q want %q", p, sp, a.Target, s.Target)
				}
			}
			if a.Kind != h.KDir && a.Mtime != s.Mtime {
				errs.Addf("%q (from %q): mtime %d want %d", p, sp, a.Mtime, s.Mtime)
			}
			continue
		}
		if st.Created[p] {
			continue // parents created on the way: metadata unspecified
		}
		// an old entry the source does not replace stays as it was
		b := before[p]
		if b == nil {
			errs.Addf("%q: model bookkeeping error", p)
			continue
		}
		if b.Kind == h.KDir {
			if a.Ino != b.Ino {
				errs.Addf("old directory %q was re-created", p)
			}
			continue
		}
		if !h.SameEntry(a, b, false) {
			errs.Addf("unrelated old entry %q was modified", p)
		}
	}
	return &errs
}

func c15Check(env *h.Env, c *c15Case) error {
	srcRoot := filepath.Join(env.Scratch, "src")
	dstRoot := filepath.Join(env.Scratch, "dst")
	for _, d := range []string{srcRoot, dstRoot} {
		if err := os.Mkdir(d, 0o755); err != nil {
			return h.Infra(err)
		}
	}
	if err := h.Materialise(c.Src, srcRoot); err != nil {
		return h.Infra(err)
	}
	if err := h.Materialise(c.Dst, dstRoot); err != nil {
		return h.Infra(err)
	}
	srcSnap, err := h.Snapshot(srcRoot)
	if err != nil {
		return h.Infra(err)
	}
	before, err := h.Snapshot(dstRoot)
	if err != nil {
		return h.Infra(err)
	}
	what := fmt.Sprintf("Copy(src=%q, dst=%q, dir-contents=%v, always-replace=%v, wildcards=%v, follow-links=%v)", c.SrcArg, c.DstArg, c.Opts.DirContents, c.Opts.AlwaysReplace, c.Opts.Wildcards, c.Opts.Follow)
	st := h.NewCpState(c.Dst)
	srcPath := c.SrcArg
	if srcPath == "/" {
		srcPath = ""
	}
	merr := st.Copy(c.Src, srcPath, c.DstArg, c.Opts)
	rerr := c15Real(c, srcRoot, dstRoot)
	after, err := h.Snapshot(dstRoot)
	if err != nil {
		return h.Infra(err)
	}
	// classes
	collide := false
	for p, n := range st.Nodes {
		if b, ok := before[p]; ok && st.From[p] != "" || (ok && b.Kind != n.Kind) {
			collide = true
		}
	}
	if collide || c.Opts.DirContents || c.Opts.AlwaysReplace || c.Opts.Wildcards || strings.HasSuffix(c.DstArg, "/") {
		env.NonTrivial()
	}
	if c.Opts.Wildcards {
		env.Class("wildcard")
	}
	if c.Opts.Follow {
		if n, ok := c.Src.Index()[strings.Trim(c.SrcArg, "/")]; ok && n.Kind == h.KSymlink {
			env.Class("follow-links-source-is-a-link")
			env.NonTrivial()
		}
	}
	if strings.HasSuffix(c.DstArg, "/") && c.DstArg != "/" {
		env.Class("trailing-separator")
	}
	if merr != nil {
		env.Class("model-error")
		if rerr == nil {
			return fmt.Errorf("%s succeeded, the overlay rules predict an error (%v)", what, merr)
		}
		if _, touched := st.From[merr.Obstacle]; merr.Obstacle != "" && !touched {
			b, a := before[merr.Obstacle], after[merr.Obstacle]
			if b != nil {
				if a == nil {
					return fmt.Errorf("%s failed (%v) but the obstacle %q was removed", what, rerr, merr.Obstacle)
				}
				if b.Kind == h.KDir && (a.Kind != h.KDir || a.Ino != b.Ino) || b.Kind != h.KDir && !h.SameEntry(a, b, false) {
					return fmt.Errorf("%s failed (%v) but the obstacle %q was modified", what, rerr, merr.Obstacle)
				}
			}
		}
		return nil
	}
	if rerr != nil {
		return fmt.Errorf("%s failed (%v), the overlay rules predict success", what, rerr)
	}
	env.Class("success")
	if errs := c15Compare(st, after, before, srcSnap); errs.Len() > 0 {
		return fmt.Errorf("%s: %v", what, errs.Err())
	}
	// repeat: the same copy again — unless the first run turned the destination
	// argument into (a path through) a symlink: resolving it is C14's domain
	{
		cur := ""
		for _, cm := range strings.Split(strings.Trim(c.DstArg, "/"), "/") {
			if cm == "" {
				continue
			}
			if cur == "" {
				cur = cm
			} else {
				cur += "/" + cm
			}
			if n, ok := st.Nodes[cur]; ok && n.Kind == h.KSymlink {
				env.Class("repeat-dst-became-symlink")
				return nil
			}
		}
	}
	st2 := &h.CpState{Nodes: map[string]*h.Node{}, From: map[string]string{}, Created: map[string]bool{}}
	for p, n := range st.Nodes {
		cp := *n
		st2.Nodes[p] = &cp
	}
	for p, f := range st.From {
		st2.From[p] = f
	}
	for p := range st.Created {
		st2.Created[p] = true
	}
	merr2 := st2.Copy(c.Src, srcPath, c.DstArg, c.Opts)
	rerr2 := c15Real(c, srcRoot, dstRoot)
	if (merr2 == nil) != (rerr2 == nil) {
		return fmt.Errorf("repeating %s: real result %v, overlay rules predict %v", what, rerr2, merr2)
	}
	if merr2 != nil {
		env.Class("repeat-error")
		return nil
	}
	after2, err := h.Snapshot(dstRoot)
	if err != nil {
		return h.Infra(err)
	}
	same := len(st2.Nodes) == len(st.Nodes)
	for p := range st2.Nodes {
		if _, ok := st.Nodes[p]; !ok {
			same = false
		}
	}
	if same {
		env.Class("repeat-same-selection")
		// repeating a successful copy changes nothing
		for _, p := range after.Paths() {
			a, b := after2[p], after[p]
			if a == nil {
				return fmt.Errorf("repeating %s removed %q", what, p)
			}
			if a.Kind != b.Kind || a.Perm != b.Perm || a.Uid != b.Uid || a.Gid != b.Gid || a.Sha != b.Sha || a.Target != b.Target || (a.Kind != h.KDir && a.Mtime != b.Mtime) {
				return fmt.Errorf("repeating %s changed %q (%+v -> %+v)", what, p, *b, *a)
			}
		}
		if len(after2) != len(after) {
			return fmt.Errorf("repeating %s changed the path set: %v -> %v", what, after.Paths(), after2.Paths())
		}
	} else {
		env.Class("repeat-new-selection")
		// the basename rule moved the landing place: check against the model only
		errs := c15Compare(st2, after2, before, srcSnap)
		// entries written by the first run are "old" for the second: only path set and kinds are judged
		var filtered h.Errs
		for _, m := range errs.List() {
			if strings.Contains(m, "model bookkeeping") || strings.Contains(m, "was modified") || strings.Contains(m, "re-created") {
				continue
			}
			filtered.Addf("%s", m)
		}
		if filtered.Len() > 0 {
			return fmt.Errorf("repeating %s: %v", what, filtered.Err())
		}
	}
	return nil
}

func TestC15(t *testing.T) {
	r := h.NewRunner("C15")
	defer r.Finish(t)
	h.RunWith(t, r, "", genC15, c15Check)
	if t.Failed() {
		return
	}
	t.Run("wildunion", func(t *testing.T) {
		h.ScaleChecks(1, 3, func() { h.RunWith(t, r, "wildunion", genC15Union, c15UnionCheck) })
	})
}

// ---------------------------------------------------------------------------
// sub-run "wildunion": "wildcard sources behave as the union of their matches",
// as a metamorphic relation without any restriction on the destination
// argument: a copy with a wildcard source must give the same verdict and the
// same destination as copying its matches (expanded on the model, in walk
// order) one after the other with wildcards off.

type c15UnionCase struct {
	Src    *h.Tree  `json:"src"`
	Dst    *h.Tree  `json:"dst"`
	SrcArg string   `json:"srcarg"`
	DstArg string   `json:"dstarg"`
	Opts   h.CpOpts `json:"opts"`
}

func genC15Union(t *rapid.T) *c15UnionCase {
	cfg := c15TreeCfg
	cfg.Hardlinks = true // (content and verdict are compared, not the link topology)
	c := &c15UnionCase{Src: h.GenTree(t, cfg, "src"), Dst: h.GenTree(t, c15TreeCfg, "dst")}
	c.Opts.Wildcards = true
	c.Opts.DirContents = rapid.Bool().Draw(t, "dircontents")
	c.Opts.AlwaysReplace = rapid.IntRange(0, 2).Draw(t, "replace") == 0
	c.SrcArg = rapid.SampledFrom([]string{"*", "*", "a*", "?", "*/a", "*/*", "a/*", "a/b*", "*b", "[ab]", "[abc]*", "zz*", "*/?/*"}).Draw(t, "glob")
	if len(c.Src.Nodes) > 0 && rapid.IntRange(0, 3).Draw(t, "fromtree") != 0 {
		// a pattern derived from an entry of the tree: one component widened
		comps := strings.Split(c.Src.Nodes[rapid.IntRange(0, len(c.Src.Nodes)-1).Draw(t, "globnode")].Path, "/")
		j := rapid.IntRange(0, len(comps)-1).Draw(t, "globcomp")
		comps[j] = rapid.SampledFrom([]string{"*", comps[j][:1] + "*", "?*", "[a-c]*"}).Draw(t, "globform")
		c.SrcArg = strings.Join(comps, "/")
	}
	didx := c.Dst.Index()
	viaSymlink := func(p string) bool {
		cur := ""
		for _, cm := range strings.Split(p, "/") {
			if cur == "" {
				cur = cm
			} else {
				cur += "/" + cm
			}
			if n, ok := didx[cur]; ok && n.Kind == h.KSymlink {
				return true
			}
		}
		return false
	}
	var cands []string
	for _, n := range c.Dst.Nodes {
		if !viaSymlink(n.Path) {
			cands = append(cands, n.Path)
		}
	}
	switch k := rapid.IntRange(0, 6).Draw(t, "dstkind"); {
	case k == 0:
		c.DstArg = "/"
	case k <= 2 && len(cands) > 0:
		c.DstArg = cands[rapid.IntRange(0, len(cands)-1).Draw(t, "dstnode")]
	case k <= 4:
		c.DstArg = rapid.SampledFrom([]string{"new", "new/all", "n1/n2/n3"}).Draw(t, "newdst")
	default:
		if len(cands) > 0 {
			c.DstArg = cands[rapid.IntRange(0, len(cands)-1).Draw(t, "under")] + "/" + rapid.SampledFrom([]string{"new", "a", "n1/n2"}).Draw(t, "leaf")
		} else {
			c.DstArg = "new"
		}
	}
	if viaSymlink(strings.Trim(c.DstArg, "/")) {
		c.DstArg = "new"
	}
	if c.DstArg != "/" && rapid.IntRange(0, 3).Draw(t, "trailing") == 0 {
		c.DstArg += "/"
	}
	return c
}

// c15Expand lists the matches of a wildcard source on the model: the literal
// leading components name the base, the rest is matched against the whole
// path below it, and a matched directory is not descended into.
func c15Expand(tr *h.Tree, src string) []string {
	comps := strings.Split(strings.Trim(src, "/"), "/")
	k := 0
	for k < len(comps) && !strings.ContainsAny(comps[k], "*?[") {
		k++
	}
	base, pat := strings.Join(comps[:k], "/"), strings.Join(comps[k:], "/")
	paths := make([]string, 0, len(tr.Nodes))
	for _, n := range tr.Nodes {
		paths = append(paths, n.Path)
	}
	sort.Slice(paths, func(i, j int) bool { return h.CmpComponents(paths[i], paths[j]) < 0 })
	var out []string
	for _, p := range paths {
		rel := p
		if base != "" {
			if !strings.HasPrefix(p, base+"/") {
				continue
			}
			rel = p[len(base)+1:]
		}
		covered := false
		for _, m := range out {
			if strings.HasPrefix(p, m+"/") {
				covered = true
			}
		}
		if covered {
			continue
		}
		if ok, _ := filepath.Match(pat, rel); ok {
			out = append(out, p)
		}
	}
	return out
}

func c15UnionCheck(env *h.Env, c *c15UnionCase) error {
	srcRoot := filepath.Join(env.Scratch, "src")
	d1, d2 := filepath.Join(env.Scratch, "dst1"), filepath.Join(env.Scratch, "dst2")
	for _, d := range []string{srcRoot, d1, d2} {
		if err := os.Mkdir(d, 0o755); err != nil {
			return h.Infra(err)
		}
	}
	if err := h.Materialise(c.Src, srcRoot); err != nil {
		return h.Infra(err)
	}
	for _, d := range []string{d1, d2} {
		if err := h.Materialise(c.Dst, d); err != nil {
			return h.Infra(err)
		}
	}
	// the base of the wildcard must be a real directory (not reached through a link)
	matches := c15Expand(c.Src, c.SrcArg)
	ci := fscopy.CopyInfo{CopyDirContents: c.Opts.DirContents, AlwaysReplaceExistingDestPaths: c.Opts.AlwaysReplace, AllowWildcards: true}
	werr := fscopy.Copy(context.Background(), srcRoot, c.SrcArg, d1, c.DstArg, fscopy.WithCopyInfo(ci))
	what := fmt.Sprintf("Copy(src=%q -> matches %q, dst=%q, dir-contents=%v, always-replace=%v)", c.SrcArg, matches, c.DstArg, c.Opts.DirContents, c.Opts.AlwaysReplace)
	env.Class(fmt.Sprintf("matches-%d", min(len(matches), 3)))
	if len(matches) == 0 {
		if werr == nil {
			return fmt.Errorf("%s succeeded although nothing matches", what)
		}
		return nil
	}
	var serr error
	ci.AllowWildcards = false
	for _, m := range matches {
		if serr = fscopy.Copy(context.Background(), srcRoot, m, d2, c.DstArg, fscopy.WithCopyInfo(ci)); serr != nil {
			break
		}
	}
	if len(matches) >= 2 {
		env.NonTrivial()
	}
	if (werr == nil) != (serr == nil) {
		return fmt.Errorf("%s: wildcard copy returned %v, copying the matches one by one returned %v", what, werr, serr)
	}
	if werr != nil {
		env.Class("both-fail")
		return nil
	}
	s1, err := h.Snapshot(d1)
	if err != nil {
		return h.Infra(err)
	}
	s2, err := h.Snapshot(d2)
	if err != nil {
		return h.Infra(err)
	}
	p1, p2 := s1.Paths(), s2.Paths()
	if !sameStrings(p1, p2) {
		return fmt.Errorf("%s: wildcard copy left %v, copying the matches one by one leaves %v", what, p1, p2)
	}
	for _, p := range p1 {
		a, b := s1[p], s2[p]
		if a.Kind != b.Kind || a.Perm != b.Perm || a.Uid != b.Uid || a.Gid != b.Gid || a.Sha != b.Sha || a.Target != b.Target || (a.Kind != h.KDir && a.Mtime != b.Mtime) {
			return fmt.Errorf("%s: %q differs: wildcard copy %+v, one by one %+v", what, p, *a, *b)
		}
	}
	return nil
}
