package checks

import (
	"fmt"
	"os"
	"path"
	"path/filepath"
	"sort"
	"strings"
	"testing"

	"github.com/tonistiigi/fsutil/types"
	"pgregory.net/rapid"

	h "verif/harness"
)

// ---------------------------------------------------------------------------
// C05: change notifications mirror exactly what changed, with true digests

func statFieldsEq(a, b *types.Stat) string {
	switch {
	case a.Path != b.Path:
		return fmt.Sprintf("path %q vs %q", a.Path, b.Path)
	case a.Mode != b.Mode:
		return fmt.Sprintf("mode %o vs %o", a.Mode, b.Mode)
	case a.Uid != b.Uid || a.Gid != b.Gid:
		return fmt.Sprintf("owner %d:%d vs %d:%d", a.Uid, a.Gid, b.Uid, b.Gid)
	case a.Size != b.Size:
		return fmt.Sprintf("size %d vs %d", a.Size, b.Size)
	case a.ModTime != b.ModTime:
		return fmt.Sprintf("mtime %d vs %d", a.ModTime, b.ModTime)
	case a.Linkname != b.Linkname:
		return fmt.Sprintf("linkname %q vs %q", a.Linkname, b.Linkname)
	}
	return ""
}

// c05Notes checks one re-sync's notification log.
func c05Notes(what string, o *resyncObs, filter int) error {
	// (1) replay the events on a model of the old destination's path set
	model := map[string]bool{}
	isDir := map[string]bool{}
	for _, p := range o.before.Paths() {
		model[p] = true
		isDir[p] = o.before[p].Kind == h.KDir
	}
	rmTree := func(p string) {
		for q := range model {
			if q == p || strings.HasPrefix(q, p+"/") {
				delete(model, q)
				delete(isDir, q)
			}
		}
	}
	seen := map[string]int{}
	for _, n := range o.notes {
		seen[n.Kind+" "+n.Path]++
		switch n.Kind {
		case "delete":
			if !model[n.Path] {
				return fmt.Errorf("%s: delete notification for %q which the destination did not contain at that point", what, n.Path)
			}
			rmTree(n.Path)
		case "add", "modify":
			if n.Stat == nil {
				return fmt.Errorf("%s: %s notification for %q without stat", what, n.Kind, n.Path)
			}
			// add and modify both mean "set this entry": the statement does not
			// demand that the two kinds are told apart (file content is always
			// reported as an add)
			if model[n.Path] && isDir[n.Path] != n.Stat.IsDir() {
				rmTree(n.Path)
			}
			if par := path.Dir(n.Path); par != "." && !(model[par] && isDir[par]) {
				return fmt.Errorf("%s: %s notification for %q before its directory exists in the replayed model", what, n.Kind, n.Path)
			}
			model[n.Path] = true
			isDir[n.Path] = n.Stat.IsDir()
		default:
			return fmt.Errorf("%s: unknown notification kind %q", what, n.Kind)
		}
	}
	var gotSet, wantSet []string
	for p := range model {
		gotSet = append(gotSet, p)
	}
	sort.Strings(gotSet)
	wantSet = append(wantSet, o.after.Paths()...)
	sort.Strings(wantSet)
	if !sameStrings(gotSet, wantSet) {
		return fmt.Errorf("%s: replaying the notifications on the old destination yields %v, the destination now holds %v (notifications: %v)", what, gotSet, wantSet, fmtNotes(o.notes))
	}
	// (2)/(3) exactly the changed and new paths, once each, with the stat as sent
	for _, n := range o.notes {
		if n.Kind == "delete" {
			continue
		}
		if seen[n.Kind+" "+n.Path] > 1 || seen["add "+n.Path]+seen["modify "+n.Path] > 1 {
			return fmt.Errorf("%s: %q reported more than once (notifications: %v)", what, n.Path, fmtNotes(o.notes))
		}
		st, ok := o.annIdx[n.Path]
		if !ok {
			return fmt.Errorf("%s: %s notification for %q which the sender never announced", what, n.Kind, n.Path)
		}
		if d := statFieldsEq(n.Stat, st); d != "" {
			return fmt.Errorf("%s: notification for %q carries metadata that differs from the stat as sent: %s", what, n.Path, d)
		}
		if o.unchanged[n.Path] && !o.may[n.Path] {
			return fmt.Errorf("%s: %q reported as %s although its identity did not change", what, n.Path, n.Kind)
		}
		// what the event describes is what the destination now holds ("applying the
		// events to a model of the old destination yields the new destination"):
		// type, permission bits, device numbers, link target, mtime of non-directories
		// (the owner goes through the receiver's filter and is C01's business)
		if a := o.after[n.Path]; a != nil {
			m := os.FileMode(n.Stat.Mode)
			var nk h.Kind
			switch {
			case m.IsDir():
				nk = h.KDir
			case m&os.ModeSymlink != 0:
				nk = h.KSymlink
			case m&os.ModeNamedPipe != 0:
				nk = h.KFifo
			case m&os.ModeCharDevice != 0:
				nk = h.KChar
			case m&os.ModeDevice != 0:
				nk = h.KBlock
			case m&os.ModeSocket != 0:
				nk = h.KSocket
			default:
				nk = h.KFile
			}
			if nk != h.KSocket && a.Kind != nk {
				return fmt.Errorf("%s: notification says %q is a %v, the destination holds a %v", what, n.Path, nk, a.Kind)
			}
			if (nk == h.KChar || nk == h.KBlock) && (uint32(n.Stat.Devmajor) != a.Major || uint32(n.Stat.Devminor) != a.Minor) {
				return fmt.Errorf("%s: notification says %q is device %d:%d, the destination holds %d:%d", what, n.Path, n.Stat.Devmajor, n.Stat.Devminor, a.Major, a.Minor)
			}
			if nk == h.KSymlink && n.Stat.Linkname != a.Target {
				return fmt.Errorf("%s: notification says %q points to %q, the destination's link points to %q", what, n.Path, n.Stat.Linkname, a.Target)
			}
			if nk != h.KDir && nk != h.KSocket && n.Stat.ModTime != a.Mtime {
				return fmt.Errorf("%s: notification says %q has mtime %d, the destination's entry has %d", what, n.Path, n.Stat.ModTime, a.Mtime)
			}
			// a directory this transfer created (new inode) carries the announced mtime
			if b := o.before[n.Path]; nk == h.KDir && (b == nil || b.Ino != a.Ino) && n.Stat.ModTime != a.Mtime {
				return fmt.Errorf("%s: notification says the new directory %q has mtime %d, the destination's directory has %d", what, n.Path, n.Stat.ModTime, a.Mtime)
			}
			// permission and set-id/sticky bits (a symlink has none of its own)
			if nk != h.KSymlink && nk != h.KSocket {
				want := uint32(m.Perm())
				if m&os.ModeSetuid != 0 {
					want |= 0o4000
				}
				if m&os.ModeSetgid != 0 {
					want |= 0o2000
				}
				if m&os.ModeSticky != 0 {
					want |= 0o1000
				}
				if a.Perm != want {
					return fmt.Errorf("%s: notification says %q has mode %04o, the destination's entry has %04o", what, n.Path, want, a.Perm)
				}
			}
			// without an owner-rewriting filter the owner is the announced one, too
			if filter == 0 && nk != h.KSocket && (n.Stat.Uid != a.Uid || n.Stat.Gid != a.Gid) {
				return fmt.Errorf("%s: notification says %q belongs to %d:%d, the destination's entry to %d:%d", what, n.Path, n.Stat.Uid, n.Stat.Gid, a.Uid, a.Gid)
			}
		}
		// (5) digest = H(header(stat as sent) || bytes now stored)
		var content []byte
		if isRegular(st) && st.Linkname == "" {
			var err error
			content, err = os.ReadFile(filepath.Join(o.dstDir, filepath.FromSlash(n.Path)))
			if err != nil {
				return fmt.Errorf("%s: cannot read back %q: %v", what, n.Path, err)
			}
		}
		if want := h.ExpectedDigest(st, content); n.Digest != want {
			return fmt.Errorf("%s: digest of %q is %q, expected %q = H(header of the stat as sent || %d stored bytes)", what, n.Path, n.Digest, want, len(content))
		}
	}
	for p := range o.changed {
		if o.may[p] {
			continue
		}
		if seen["add "+p]+seen["modify "+p] != 1 {
			return fmt.Errorf("%s: %q changed (announced %+v, destination had %+v) but was reported %d times (notifications: %v)", what, p, keyOf(o.annIdx[p]), keyPtr(o.destStat[p]), seen["add "+p]+seen["modify "+p], fmtNotes(o.notes))
		}
	}
	// (4) deletes: exactly the top-most removed paths
	var gotDel []string
	for _, n := range o.notes {
		if n.Kind == "delete" {
			gotDel = append(gotDel, n.Path)
		}
	}
	sort.Strings(gotDel)
	if !sameStrings(gotDel, o.removedTop) {
		return fmt.Errorf("%s: delete notifications %v, expected exactly the top-most removed paths %v", what, gotDel, o.removedTop)
	}
	return nil
}

func keyPtr(st *types.Stat) any {
	if st == nil {
		return "absent"
	}
	return keyOf(st)
}

func fmtNotes(ns []h.Note) []string {
	var out []string
	for i, n := range ns {
		if i >= 24 {
			out = append(out, fmt.Sprintf("... (%d more)", len(ns)-i))
			break
		}
		out = append(out, n.Kind+" "+n.Path)
	}
	return out
}

func c05Check(env *h.Env, c *histCase) error {
	dstDir := filepath.Join(env.Scratch, "dst")
	if err := os.Mkdir(dstDir, 0o755); err != nil {
		return h.Infra(err)
	}
	for k := 0; k < len(c.Steps); k++ {
		o, err := runResync(env, c.Steps[k], c, k, false, dstDir, true)
		if err != nil {
			return err
		}
		if o.res.Stuck != "" {
			env.Class("stuck")
			return nil
		}
		if o.res.SendErr != nil || o.res.RecvErr != nil {
			env.Class("rejected")
			return nil
		}
		what := fmt.Sprintf("sync %d (edits %v, memsrc=%v)", k, c.Edits[k], c.MemSrc)
		if err := c05Notes(what, o, c.Filter); err != nil {
			return err
		}
		nMod, nDel := 0, len(o.removedTop)
		dirMeta := false
		for p := range o.changed {
			if _, existed := o.destStat[p]; existed {
				nMod++
				if o.annIdx[p].IsDir() && o.destStat[p].IsDir() {
					dirMeta = true
				}
			}
		}
		if k > 0 && (nMod > 0 || nDel > 0) && len(o.unchanged) > 0 {
			env.NonTrivial()
		}
		if dirMeta {
			env.Class("dir-metadata-edit")
		}
		if nDel > 0 {
			env.Class("deletes")
		}
		if nMod > 0 {
			env.Class("modifies")
		}
	}
	return nil
}

func TestC05(t *testing.T) {
	h.Run(t, "C05", func(t *rapid.T) *histCase { return genHist(t, false) }, c05Check)
}
