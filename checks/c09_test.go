package checks

import (
	"context"
	"crypto/sha256"
	"encoding/hex"
	"encoding/json"
	"fmt"
	"io"
	gofs "io/fs"
	"os"
	"path"
	"path/filepath"
	"sort"
	"strings"
	"testing"

	"github.com/tonistiigi/fsutil"
	"github.com/tonistiigi/fsutil/types"
	"pgregory.net/rapid"

	h "verif/harness"
)

// ---------------------------------------------------------------------------
// C09: walk lists every entry once, parents first, in protocol order, true stats

type c09Sub struct {
	Name string  `json:"name"`
	Tree *h.Tree `json:"tree"`
}

type c09Case struct {
	Tree    *h.Tree  `json:"tree"`
	Target  string   `json:"target"` // sub-target ("" = none)
	Subs    []c09Sub `json:"subs"`   // composite (in the order handed to SubDirFS)
	SubWalk string   `json:"subwalk"`
	// RootVia: how the root directory is named when handed to the library: 0 its
	// real path, 1 an absolute symlink to it, 2 a relative symlink, 3 through a
	// symlinked parent directory, 4 a chain of two symlinks
	RootVia int `json:"rootvia,omitempty"`
	// SlashRoot: additionally walk the tree as a sub-target of NewFS("/")
	SlashRoot bool `json:"slashroot,omitempty"`
}

type walked struct {
	Path string
	Stat *types.Stat
}

func collectFS(f fsutil.FS, target string) ([]walked, error) {
	var out []walked
	err := f.Walk(context.Background(), target, func(p string, e gofs.DirEntry, err error) error {
		if err != nil {
			return err
		}
		fi, err := e.Info()
		if err != nil {
			return err
		}
		st, ok := fi.Sys().(*types.Stat)
		if !ok {
			return fmt.Errorf("%s: Sys() is %T", p, fi.Sys())
		}
		// asking an entry twice gives the same answer (wrappers such as the
		// hard-link reset ask, and pass the entry on to a consumer that asks again)
		if fi2, err := e.Info(); err != nil {
			return fmt.Errorf("%s: second Info(): %v", p, err)
		} else if st2, ok := fi2.Sys().(*types.Stat); !ok || !st2.EqualVT(st) {
			return fmt.Errorf("%s: Info() asked twice: first %v, then %v", p, st, fi2.Sys())
		}
		out = append(out, walked{p, st})
		return nil
	})
	return out, err
}

func modeOf(e *h.Entry) uint32 {
	n := h.Node{Kind: e.Kind, Perm: e.Perm}
	return n.ModeBits()
}

// expectWalk computes, from the independent snapshot, the sequence a walk
// restricted to the entries `keep` must report.
func expectWalk(s h.Snap, keep func(p string) bool) []walked {
	var out []walked
	first := map[[2]uint64]string{}
	for _, p := range s.Paths() {
		if !keep(p) {
			continue
		}
		e := s[p]
		st := &types.Stat{Path: p, Mode: modeOf(e), Uid: e.Uid, Gid: e.Gid, ModTime: e.Mtime}
		if e.Kind != h.KDir {
			st.Size = e.Size
			if e.Kind == h.KChar || e.Kind == h.KBlock {
				st.Devmajor, st.Devminor = int64(e.Major), int64(e.Minor)
			}
			if e.Nlink > 1 {
				k := [2]uint64{e.Dev, e.Ino}
				if f, ok := first[k]; ok {
					st.Linkname = f
				} else {
					first[k] = p
				}
			}
			if e.Kind == h.KSymlink {
				st.Linkname = e.Target
			}
		}
		if len(e.Xattrs) > 0 {
			st.Xattrs = map[string][]byte{}
			for k, v := range e.Xattrs {
				st.Xattrs[k] = []byte(v)
			}
		}
		out = append(out, walked{p, st})
	}
	return out
}

func cmpStat(got, want *types.Stat, linkMember bool) error {
	if got.Path != want.Path {
		return fmt.Errorf("stat.Path %q want %q", got.Path, want.Path)
	}
	if got.Mode != want.Mode {
		return fmt.Errorf("mode %v want %v", os.FileMode(got.Mode), os.FileMode(want.Mode))
	}
	if got.Uid != want.Uid || got.Gid != want.Gid {
		return fmt.Errorf("owner %d:%d want %d:%d", got.Uid, got.Gid, want.Uid, want.Gid)
	}
	if got.ModTime != want.ModTime {
		return fmt.Errorf("mtime %d want %d", got.ModTime, want.ModTime)
	}
	if got.Linkname != want.Linkname {
		return fmt.Errorf("linkname %q want %q", got.Linkname, want.Linkname)
	}
	if got.Size != want.Size {
		return fmt.Errorf("size %d want %d", got.Size, want.Size)
	}
	if got.Devmajor != want.Devmajor || got.Devminor != want.Devminor {
		return fmt.Errorf("dev %d:%d want %d:%d", got.Devmajor, got.Devminor, want.Devmajor, want.Devminor)
	}
	if len(got.Xattrs) != len(want.Xattrs) {
		return fmt.Errorf("xattrs %q want %q", got.Xattrs, want.Xattrs)
	}
	for k, v := range want.Xattrs {
		if g, ok := got.Xattrs[k]; !ok || string(g) != string(v) {
			return fmt.Errorf("xattr %q = %q want %q", k, g, v)
		}
	}
	return nil
}

func cmpWalk(what string, got, want []walked) error {
	seen := map[string]bool{}
	for i, g := range got {
		if g.Path == "." || g.Path == "" || g.Path == "/" {
			return fmt.Errorf("%s: root reported as %q", what, g.Path)
		}
		if seen[g.Path] {
			return fmt.Errorf("%s: %q reported twice", what, g.Path)
		}
		seen[g.Path] = true
		if i > 0 {
			if h.CmpComponents(got[i-1].Path, g.Path) >= 0 || fsutil.ComparePath(got[i-1].Path, g.Path) >= 0 {
				return fmt.Errorf("%s: %q reported before %q: not strictly ascending in protocol order", what, got[i-1].Path, g.Path)
			}
		}
		if par := path.Dir(g.Path); par != "." {
			// parent (within the walked set) must have been reported before
			if !seen[par] && len(want) > 0 && inSet(want, par) {
				return fmt.Errorf("%s: %q reported before its directory %q", what, g.Path, par)
			}
		}
	}
	for i := 0; i < len(got) && i < len(want); i++ {
		if got[i].Path != want[i].Path {
			return fmt.Errorf("%s: entry %d is %q, expected %q (got %v want %v)", what, i, got[i].Path, want[i].Path, pathsOf(got), pathsOf(want))
		}
		linkMember := want[i].Stat.Linkname != "" && os.FileMode(want[i].Stat.Mode)&os.ModeSymlink == 0
		if err := cmpStat(got[i].Stat, want[i].Stat, linkMember); err != nil {
			return fmt.Errorf("%s: %q: %v", what, got[i].Path, err)
		}
	}
	if len(got) != len(want) {
		return fmt.Errorf("%s: %d entries reported, %d expected (got %v want %v)", what, len(got), len(want), pathsOf(got), pathsOf(want))
	}
	return nil
}

func inSet(w []walked, p string) bool {
	for _, x := range w {
		if x.Path == p {
			return true
		}
	}
	return false
}

func pathsOf(w []walked) []string {
	out := make([]string, 0, len(w))
	for i, x := range w {
		if i >= 30 {
			out = append(out, "...")
			break
		}
		out = append(out, x.Path)
	}
	return out
}

var c09TreeCfg = h.TreeCfg{
	MaxEntries: 14, MaxDepth: 4,
	Kinds:  []h.Kind{h.KFile, h.KFile, h.KFile, h.KSymlink, h.KFifo, h.KChar, h.KBlock, h.KSocket},
	Xattrs: true, XattrNS: []string{"user.", "trusted.", "security."}, BigXattrs: true,
	Hardlinks: true, SpecialLinks: true, LongNames: true, BadUTF8: true, UncleanTargets: true,
}

func genC09(t *rapid.T) *c09Case {
	c := &c09Case{Tree: h.GenTree(t, c09TreeCfg, "t")}
	if len(c.Tree.Nodes) > 0 && rapid.Bool().Draw(t, "hastarget") {
		c.Target = c.Tree.Nodes[rapid.IntRange(0, len(c.Tree.Nodes)-1).Draw(t, "target")].Path
	}
	ns := rapid.IntRange(0, 3).Draw(t, "nsubs")
	used := map[string]bool{}
	small := c09TreeCfg
	small.MaxEntries = 6
	for i := 0; i < ns; i++ {
		name := rapid.SampledFrom([]string{"z", "a", "ab", "a-b", "a.b", "sub", "é", "A"}).Draw(t, fmt.Sprintf("subname%d", i))
		if used[name] {
			continue
		}
		used[name] = true
		var tr *h.Tree
		if i == 0 {
			tr = c.Tree
		} else {
			tr = h.GenTree(t, small, fmt.Sprintf("sub%d", i))
		}
		c.Subs = append(c.Subs, c09Sub{Name: name, Tree: tr})
	}
	if len(c.Subs) > 0 && rapid.Bool().Draw(t, "subwalk") {
		c.SubWalk = c.Subs[rapid.IntRange(0, len(c.Subs)-1).Draw(t, "subwalkidx")].Name
	}
	if rapid.IntRange(0, 3).Draw(t, "viasymlink") == 0 {
		c.RootVia = rapid.IntRange(1, 4).Draw(t, "rootvia")
	}
	c.SlashRoot = rapid.IntRange(0, 5).Draw(t, "slashroot") == 0
	return c
}

func c09Check(env *h.Env, c *c09Case) error {
	src := filepath.Join(env.Scratch, "src")
	if err := os.Mkdir(src, 0o755); err != nil {
		return err
	}
	if err := h.Materialise(c.Tree, src); err != nil {
		return h.Infra(err)
	}
	snap, err := h.Snapshot(src)
	if err != nil {
		return h.Infra(err)
	}
	feats := c.Tree.Features()
	for _, f := range feats {
		env.Class(f)
		if f == "ordersensitive" || f == "hardlink" || f == "special" {
			env.NonTrivial()
		}
	}
	all := func(string) bool { return true }
	want := expectWalk(snap, all)
	// the same directory named through symbolic links
	switch c.RootVia {
	case 1:
		l := filepath.Join(env.Scratch, "rootlink")
		if err := os.Symlink(src, l); err != nil {
			return h.Infra(err)
		}
		src = l
	case 2:
		l := filepath.Join(env.Scratch, "rootlink")
		if err := os.Symlink("src", l); err != nil {
			return h.Infra(err)
		}
		src = l
	case 3:
		l := filepath.Join(env.Scratch, "parentlink")
		if err := os.Symlink(env.Scratch, l); err != nil {
			return h.Infra(err)
		}
		src = filepath.Join(l, "src")
	case 4:
		l1, l2 := filepath.Join(env.Scratch, "rootlink1"), filepath.Join(env.Scratch, "rootlink2")
		if err := os.Symlink("src", l1); err != nil {
			return h.Infra(err)
		}
		if err := os.Symlink(l1, l2); err != nil {
			return h.Infra(err)
		}
		src = l2
	}
	if c.RootVia != 0 {
		env.Class("root-via-symlink")
	}

	// the four public ways to walk the root
	var got []walked
	err = fsutil.WalkDir(context.Background(), src, nil, func(p string, e gofs.DirEntry, err error) error {
		if err != nil {
			return err
		}
		fi, err := e.Info()
		if err != nil {
			return err
		}
		got = append(got, walked{p, fi.Sys().(*types.Stat)})
		return nil
	})
	if err != nil {
		return fmt.Errorf("WalkDir: %v", err)
	}
	if err := cmpWalk("WalkDir", got, want); err != nil {
		return err
	}
	got = nil
	err = fsutil.Walk(context.Background(), src, nil, func(p string, fi os.FileInfo, err error) error {
		if err != nil {
			return err
		}
		got = append(got, walked{p, fi.Sys().(*types.Stat)})
		return nil
	})
	if err != nil {
		return fmt.Errorf("Walk: %v", err)
	}
	if err := cmpWalk("Walk", got, want); err != nil {
		return err
	}
	f, err := fsutil.NewFS(src)
	if err != nil {
		return fmt.Errorf("NewFS: %v", err)
	}
	for _, tgt := range []string{"/", ""} {
		got, err = collectFS(f, tgt)
		if err != nil {
			return fmt.Errorf("NewFS.Walk(%q): %v", tgt, err)
		}
		if err := cmpWalk(fmt.Sprintf("NewFS.Walk(%q)", tgt), got, want); err != nil {
			return err
		}
	}
	// sub-target: entries at or below it, link canonicalisation restarted
	if c.Target != "" {
		env.Class("subtarget")
		tg := c.Target
		sub := expectWalk(snap, func(p string) bool { return p == tg || strings.HasPrefix(p, tg+"/") })
		got, err = collectFS(f, tg)
		if err != nil {
			return fmt.Errorf("NewFS.Walk(%q): %v", tg, err)
		}
		if err := cmpWalk(fmt.Sprintf("NewFS.Walk(%q)", tg), got, sub); err != nil {
			return err
		}
	}
	// the file system root itself as the FS root, the tree as a sub-target of it
	if c.SlashRoot {
		env.Class("slash-root")
		real, err := filepath.EvalSymlinks(src)
		if err != nil {
			return h.Infra(err)
		}
		tg := strings.TrimPrefix(real, "/")
		slash, err := fsutil.NewFS("/")
		if err != nil {
			return fmt.Errorf("NewFS(\"/\"): %v", err)
		}
		got, err = collectFS(slash, tg)
		if err != nil {
			return fmt.Errorf("NewFS(\"/\").Walk(%q): %v", tg, err)
		}
		if len(got) == 0 || got[0].Path != tg {
			return fmt.Errorf("NewFS(\"/\").Walk(%q): first entry %v, expected the target itself", tg, got)
		}
		var exp []walked
		for _, w := range want {
			st := w.Stat.Clone()
			st.Path = tg + "/" + st.Path
			if st.Linkname != "" && os.FileMode(st.Mode)&os.ModeSymlink == 0 {
				st.Linkname = tg + "/" + st.Linkname
			}
			exp = append(exp, walked{st.Path, st})
		}
		if err := cmpWalk(fmt.Sprintf("NewFS(\"/\").Walk(%q)", tg), got[1:], exp); err != nil {
			return err
		}
	}
	// composite of named sub-roots
	if len(c.Subs) > 0 {
		env.Class(fmt.Sprintf("composite-%d", len(c.Subs)))
		var dirs []fsutil.Dir
		type sub struct {
			name string
			snap h.Snap
		}
		var subs []sub
		for i, s := range c.Subs {
			root := src
			sn := snap
			if s.Tree != c.Tree {
				root = filepath.Join(env.Scratch, fmt.Sprintf("sub%d", i))
				if err := os.Mkdir(root, 0o755); err != nil {
					return err
				}
				if err := h.Materialise(s.Tree, root); err != nil {
					return h.Infra(err)
				}
				if sn, err = h.Snapshot(root); err != nil {
					return h.Infra(err)
				}
			}
			sf, err := fsutil.NewFS(root)
			if err != nil {
				return fmt.Errorf("NewFS: %v", err)
			}
			dirs = append(dirs, fsutil.Dir{FS: sf, Stat: &types.Stat{Path: s.Name, Mode: uint32(os.ModeDir | 0o751), Uid: 7, Gid: 8, ModTime: 99}})
			subs = append(subs, sub{s.Name, sn})
		}
		unsorted := !sort.SliceIsSorted(subs, func(i, j int) bool { return subs[i].name < subs[j].name })
		if unsorted {
			env.Class("composite-unsorted-input")
			env.NonTrivial()
		}
		cf, err := fsutil.SubDirFS(dirs)
		if err != nil {
			return fmt.Errorf("SubDirFS: %v", err)
		}
		sort.Slice(subs, func(i, j int) bool { return h.CmpComponents(subs[i].name, subs[j].name) < 0 })
		build := func(only string) []walked {
			var wantc []walked
			for _, s := range subs {
				if only != "" && s.name != only {
					continue
				}
				wantc = append(wantc, walked{s.name, &types.Stat{Path: s.name, Mode: uint32(os.ModeDir | 0o751), Uid: 7, Gid: 8, ModTime: 99}})
				for _, w := range expectWalk(s.snap, all) {
					st := w.Stat
					st.Path = s.name + "/" + st.Path
					if st.Linkname != "" {
						if os.FileMode(st.Mode)&os.ModeSymlink != 0 {
							if strings.HasPrefix(st.Linkname, "/") {
								st.Linkname = path.Join("/"+s.name, st.Linkname)
							}
						} else {
							st.Linkname = s.name + "/" + st.Linkname
						}
					}
					wantc = append(wantc, walked{st.Path, st})
				}
			}
			return wantc
		}
		got, err = collectFS(cf, "/")
		if err != nil {
			return fmt.Errorf("SubDirFS.Walk: %v", err)
		}
		// SubDirFS.Walk("/") : filepath separator handling: "/" cuts to first="" -> all
		if err := cmpWalk("SubDirFS.Walk(\"/\")", got, build("")); err != nil {
			// Walk("/") splits on the separator: first=="" selects all sub-roots
			return err
		}
		got, err = collectFS(cf, "")
		if err != nil {
			return fmt.Errorf("SubDirFS.Walk(\"\"): %v", err)
		}
		if err := cmpWalk("SubDirFS.Walk(\"\")", got, build("")); err != nil {
			return err
		}
		// what the composite reports it also opens: the bytes of that sub-tree's file
		for _, s := range subs {
			for p, e := range s.snap {
				if e.Kind != h.KFile || e.Size == 0 {
					continue
				}
				rc, err := cf.Open(s.name + "/" + p)
				if err != nil {
					return fmt.Errorf("SubDirFS.Open(%q): %v", s.name+"/"+p, err)
				}
				dt, _ := io.ReadAll(rc)
				rc.Close()
				sum := sha256.Sum256(dt)
				if hex.EncodeToString(sum[:]) != e.Sha {
					return fmt.Errorf("SubDirFS.Open(%q) yields %d bytes that are not that file's content (sub-directories were handed over as %v)", s.name+"/"+p, len(dt), c.Subs)
				}
			}
		}
		if c.SubWalk != "" {
			got, err = collectFS(cf, c.SubWalk)
			if err != nil {
				return fmt.Errorf("SubDirFS.Walk(%q): %v", c.SubWalk, err)
			}
			if err := cmpWalk(fmt.Sprintf("SubDirFS.Walk(%q)", c.SubWalk), got, build(c.SubWalk)); err != nil {
				return err
			}
		}
	}
	return nil
}

func TestC09(t *testing.T) {
	r := h.NewRunner("C09")
	defer r.Finish(t)
	h.RunWith(t, r, "", genC09, c09Check)
	if t.Failed() {
		return
	}
	t.Run("unpriv", func(t *testing.T) {
		h.ScaleChecks(1, 40, func() { h.RunWith(t, r, "unpriv", genC09Unpriv, c09UnprivCheck) })
	})
}

// ---------------------------------------------------------------------------
// sub-run "unpriv": the walk runs as uid 1000 (chrooted sub-process) over a tree
// it owns in which some files are not readable by it (mode 0000/0200) and carry
// user.* xattrs: every entry is still reported, in order, with its lstat fields;
// xattr values are compared for the entries the walker can read.

type c09UnprivCase struct {
	Tree *h.Tree `json:"tree"`
}

type c09JailResult struct {
	Err   string  `json:"err"`
	Stats []hStat `json:"stats"`
}

// jailWalkArg: optional patterns for the walk that runs inside the chroot.
type jailWalkArg struct {
	Include []string `json:"include,omitempty"`
	Exclude []string `json:"exclude,omitempty"`
}

func jailWalk(raw json.RawMessage) (any, error) {
	res := &c09JailResult{}
	var a jailWalkArg
	_ = json.Unmarshal(raw, &a)
	var opt *fsutil.FilterOpt
	if len(a.Include)+len(a.Exclude) > 0 {
		opt = &fsutil.FilterOpt{IncludePatterns: a.Include, ExcludePatterns: a.Exclude}
	}
	err := fsutil.Walk(context.Background(), "/src", opt, func(p string, fi os.FileInfo, err error) error {
		if err != nil {
			return err
		}
		st := fi.Sys().(*types.Stat)
		res.Stats = append(res.Stats, hStat{Path: h.BStr(st.Path), Mode: st.Mode, Uid: st.Uid, Gid: st.Gid, Size: st.Size, Mtime: st.ModTime, Link: h.BStr(st.Linkname), Maj: st.Devmajor, Min: st.Devminor, Xattrs: st.Xattrs})
		return nil
	})
	if err != nil {
		res.Err = err.Error()
	}
	return res, nil
}

func genC09Unpriv(t *rapid.T) *c09UnprivCase {
	c := &c09UnprivCase{Tree: h.GenTree(t, c01UnprivCfg, "t")}
	unprivNormalize(c.Tree)
	for i := range c.Tree.Nodes {
		if n := &c.Tree.Nodes[i]; n.Kind == h.KFile && n.LinkTo == "" && rapid.IntRange(0, 2).Draw(t, fmt.Sprintf("unreadable%d", i)) == 0 {
			n.Perm = rapid.SampledFrom([]uint32{0, 0o200, 0o100, 0o044}).Draw(t, fmt.Sprintf("perm%d", i))
			if n.Xattrs == nil && rapid.Bool().Draw(t, fmt.Sprintf("addx%d", i)) {
				n.Xattrs = map[string][]byte{"user.k": []byte("v")}
			}
		}
	}
	c.Tree.Normalize()
	return c
}

func c09UnprivCheck(env *h.Env, c *c09UnprivCase) error {
	jail := filepath.Join(env.Scratch, "jail")
	src := filepath.Join(jail, "src")
	if err := os.MkdirAll(src, 0o755); err != nil {
		return h.Infra(err)
	}
	if err := h.Materialise(c.Tree, src); err != nil {
		return h.Infra(err)
	}
	if err := os.Chown(src, 1000, 1000); err != nil {
		return h.Infra(err)
	}
	os.Chmod(jail, 0o755)
	os.Chmod(env.Scratch, 0o755)
	snap, err := h.Snapshot(src)
	if err != nil {
		return h.Infra(err)
	}
	want := expectWalk(snap, func(string) bool { return true })
	var res c09JailResult
	if err := runJailed(jail, "walk", 1000, struct{}{}, &res); err != nil {
		return h.Infra(err)
	}
	env.Class("unprivileged-walk")
	unreadable := map[string]bool{}
	for _, n := range c.Tree.Nodes {
		if n.Kind == h.KFile && n.Perm&0o400 == 0 {
			unreadable[n.Path] = true
			if len(n.Xattrs) > 0 {
				env.Class("unreadable-file-with-xattr")
				env.NonTrivial()
			}
		}
	}
	if res.Err != "" {
		return fmt.Errorf("walk as uid 1000 over a tree it owns failed: %s", res.Err)
	}
	var got []walked
	for i := range res.Stats {
		st := res.Stats[i].stat()
		got = append(got, walked{st.Path, st})
	}
	// xattr values of entries the walker cannot read are out of its reach
	for i := range want {
		if unreadable[want[i].Path] || (want[i].Stat.Linkname != "" && unreadable[want[i].Stat.Linkname]) {
			st := want[i].Stat.Clone()
			st.Xattrs = nil
			want[i].Stat = st
		}
	}
	for i := range got {
		if unreadable[got[i].Path] || (got[i].Stat.Linkname != "" && unreadable[got[i].Stat.Linkname]) {
			got[i].Stat.Xattrs = nil
		}
	}
	return cmpWalk("Walk as uid 1000", got, want)
}
