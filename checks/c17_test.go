package checks

import (
	"archive/tar"
	"bytes"
	"context"
	"fmt"
	"io"
	gofs "io/fs"
	"os"
	"os/exec"
	"path/filepath"
	"strings"
	"testing"
	"time"

	"github.com/tonistiigi/fsutil"
	"github.com/tonistiigi/fsutil/types"
	"golang.org/x/sys/unix"
	"pgregory.net/rapid"

	h "verif/harness"
)

// ---------------------------------------------------------------------------
// C17: tar export round-trips the filesystem view

type c17Case struct {
	Tree    *h.Tree  `json:"tree"`
	View    string   `json:"view"` // disk | mem | filtered
	Include []string `json:"include"`
	Exclude []string `json:"exclude"`
	Hide    []string `json:"hide"` // paths dropped by a second filter layer (Map), after the base view stat'ed them
	Long    int      `json:"long"` // add an entry with a path of this many bytes (0 = none)
	// Prior: what was done with the same view value before the export that is
	// judged: 0 nothing, 1 a complete Walk of it, 2 another WriteTar
	Prior int `json:"prior,omitempty"`
	// Bare: a single pattern filter straight over the directory, exported without
	// the hard-link reset wrapper: a filter that never looks at the names it hides
	// yields a self-contained view by itself
	Bare bool `json:"bare,omitempty"`
}

var c17TreeCfg = h.TreeCfg{
	MaxEntries: 12, MaxDepth: 3, Names: []string{"a", "b", "c", "ab", "a-b", "é", "日本", "x y", "d", "sub", ".hidden", "..data", "..."},
	Kinds:  []h.Kind{h.KFile, h.KFile, h.KFile, h.KSymlink, h.KFifo, h.KChar, h.KBlock},
	Xattrs: true, XattrNS: []string{"user.", "trusted."}, Hardlinks: true, SpecialLinks: true, BigFiles: true, LongNames: true, BigXattrs: true, BadUTF8: true,
	SymTargets: []string{"a", "../b", "/abs/target", "dangling", strings.Repeat("t", 120)}, UncleanTargets: true,
}

func genC17(t *rapid.T) *c17Case {
	c := &c17Case{Tree: h.GenTree(t, c17TreeCfg, "t")}
	c.View = rapid.SampledFrom([]string{"disk", "mem", "filtered"}).Draw(t, "view")
	if c.View == "filtered" {
		c.Include = h.GenPatterns(t, c.Tree, "inc", 2)
		c.Exclude = h.GenPatterns(t, c.Tree, "exc", 2)
		// a second layer that hides entries the first one already stat'ed: with hard links the
		// promoted member must become a complete regular file
		for _, n := range c.Tree.Nodes {
			if n.Kind != h.KDir && rapid.IntRange(0, 3).Draw(t, "hide"+n.Path) == 0 {
				c.Hide = append(c.Hide, n.Path)
			}
		}
		for _, n := range c.Tree.Nodes {
			if n.LinkTo != "" && rapid.Bool().Draw(t, "hidefirst"+n.Path) {
				c.Hide = append(c.Hide, n.LinkTo)
			}
		}
		// or hide the first name of a link group with a pattern of the filter itself
		// (its directory stays): the next visible name must become the file
		for _, n := range c.Tree.Nodes {
			if n.LinkTo != "" && rapid.IntRange(0, 2).Draw(t, "excludefirst"+n.Path) == 0 {
				c.Exclude = append(c.Exclude, n.LinkTo)
				break
			}
		}
	}
	if rapid.IntRange(0, 4).Draw(t, "long") == 0 {
		c.Long = rapid.SampledFrom([]int{101, 156, 256, 300}).Draw(t, "longn")
	}
	if rapid.IntRange(0, 2).Draw(t, "priormode") == 0 {
		c.Prior = rapid.IntRange(1, 2).Draw(t, "prior")
	}
	if c.View == "filtered" && rapid.IntRange(0, 2).Draw(t, "bare") == 0 {
		c.Bare = true
		c.Hide = nil
	}
	return c
}

func c17Tree(c *c17Case) *h.Tree {
	if c.Long == 0 {
		return c.Tree
	}
	tr := c.Tree.Clone()
	// a deep path whose total length exceeds the ustar name field(s)
	p := ""
	for len(p) < c.Long-20 {
		seg := strings.Repeat("q", 30)
		if p == "" {
			p = seg
		} else {
			p += "/" + seg
		}
		if _, ok := tr.Index()[p]; !ok {
			tr.Nodes = append(tr.Nodes, h.Node{Path: p, Kind: h.KDir, Perm: 0o755, Mtime: 11_000_000_000})
		}
	}
	tr.Nodes = append(tr.Nodes, h.Node{Path: p + "/" + strings.Repeat("f", 18), Kind: h.KFile, Perm: 0o640, Mtime: 12_000_000_007, Seed: 77, Size: 33})
	tr.Normalize()
	return tr
}

type tarMember struct {
	hdr  *tar.Header
	data []byte
}

func readTar(b []byte) ([]tarMember, error) {
	tr := tar.NewReader(bytes.NewReader(b))
	var out []tarMember
	for {
		hdr, err := tr.Next()
		if err == io.EOF {
			return out, nil
		}
		if err != nil {
			return out, fmt.Errorf("archive is not well-formed after %d members: %v", len(out), err)
		}
		dt, err := io.ReadAll(tr)
		if err != nil {
			return out, fmt.Errorf("member %q: %v", hdr.Name, err)
		}
		out = append(out, tarMember{hdr, dt})
	}
}

func c17Check(env *h.Env, c *c17Case) error {
	tree := c17Tree(c)
	var view fsutil.FS
	var want []walked // the view's entries, in walk order
	viewTree := tree
	content := func(p string) []byte {
		n := viewTree.Index()[p]
		if n == nil || n.Kind != h.KFile {
			return nil
		}
		if n.LinkTo != "" {
			n = viewTree.Index()[n.LinkTo]
		}
		return h.Content(n.Seed, n.Size)
	}
	switch c.View {
	case "mem":
		m := &h.MemFS{T: tree, LinkSizeFull: false}
		view = m
		for _, st := range m.Stats() {
			want = append(want, walked{st.Path, st})
		}
	default:
		srcDir := filepath.Join(env.Scratch, "src")
		if err := os.Mkdir(srcDir, 0o755); err != nil {
			return h.Infra(err)
		}
		if err := h.Materialise(tree, srcDir); err != nil {
			return h.Infra(err)
		}
		base, err := fsutil.NewFS(srcDir)
		if err != nil {
			return h.Infra(err)
		}
		view = base
		if c.View != "filtered" && len(c.Tree.Nodes)%3 == 0 {
			// the wrapper Send puts around every view: over a complete tree it changes nothing
			view = fsutil.WithHardlinkReset(base)
			env.Class("plain-view-under-hardlink-reset")
		}
		if c.View == "filtered" {
			fv, err := fsutil.NewFilterFS(base, &fsutil.FilterOpt{IncludePatterns: listArg(c.Include, len(c.Tree.Nodes)%2 == 0), ExcludePatterns: listArg(c.Exclude, len(c.Tree.Nodes)%2 == 0)})
			if err != nil {
				env.Class("invalid-pattern")
				return nil
			}
			if len(c.Hide) > 0 {
				hide := map[string]bool{}
				for _, p := range c.Hide {
					hide[p] = true
				}
				fv, err = fsutil.NewFilterFS(fv, &fsutil.FilterOpt{Map: func(p string, st *types.Stat) fsutil.MapResult {
					if hide[p] {
						return fsutil.MapResultExclude
					}
					return fsutil.MapResultKeep
				}})
				if err != nil {
					return h.Infra(err)
				}
			}
			// the form Send uses: a view whose lower layers looked at hidden names is only
			// self-contained with the hard-link reset
			view = fsutil.WithHardlinkReset(fv)
			if c.Bare {
				env.Class("bare-filter-view")
				view = fv
			}
			got, err := collectFS(view, "/")
			if err != nil {
				return fmt.Errorf("walk of the filtered view failed: %v", err)
			}
			want = got
			var rep []string
			for _, w := range got {
				rep = append(rep, w.Path)
			}
			vt, _, verr := restrictTree(tree, rep)
			if verr != nil {
				return verr
			}
			viewTree = vt
			// Open must agree with the walk for the tar writer to find the bytes: attribute the known divergence
			for _, w := range got {
				if isRegular(w.Stat) && w.Stat.Linkname == "" && w.Stat.Size > 0 {
					if rc, err := view.Open(w.Path); err != nil {
						if !patternsDiverge(w.Path, c.Include, c.Exclude) {
							return fmt.Errorf("filtered view reports %q but Open through it fails: %v", w.Path, err)
						}
						return env.Known("patternmatcher-parent-results-divergence", "filtered view reports %q but cannot open it (%v): the tar stream cannot carry its bytes", w.Path, err)
					} else {
						rc.Close()
					}
				}
			}
		} else {
			snap, err := h.Snapshot(srcDir)
			if err != nil {
				return h.Infra(err)
			}
			want = expectWalk(snap, func(string) bool { return true })
		}
	}
	switch c.Prior {
	case 1:
		env.Class("view-walked-before")
		if err := view.Walk(context.Background(), "", func(string, gofs.DirEntry, error) error { return nil }); err != nil {
			return fmt.Errorf("Walk(%s view) failed: %v", c.View, err)
		}
	case 2:
		env.Class("view-exported-before")
		if err := fsutil.WriteTar(context.Background(), view, io.Discard); err != nil {
			return fmt.Errorf("first WriteTar(%s view) failed: %v", c.View, err)
		}
	}
	var buf bytes.Buffer
	if err := fsutil.WriteTar(context.Background(), view, &buf); err != nil {
		return fmt.Errorf("WriteTar(%s view) failed: %v", c.View, err)
	}
	members, err := readTar(buf.Bytes())
	if err != nil {
		return err
	}
	// well-formed down to the last byte: whole 512-byte blocks, closed by the
	// end-of-archive marker (two zero blocks); a lenient reader forgives both
	if raw := buf.Bytes(); len(raw)%512 != 0 {
		return fmt.Errorf("the archive is %d bytes long: not a whole number of 512-byte blocks", len(raw))
	} else if len(raw) < 1024 || len(bytes.Trim(raw[len(raw)-1024:], "\x00")) != 0 {
		return fmt.Errorf("the archive (%d bytes, %d members) does not end with the end-of-archive marker (two zero blocks)", len(raw), len(members))
	}
	nt := false
	if len(members) != len(want) {
		var names []string
		for _, m := range members {
			names = append(names, m.hdr.Name)
		}
		return fmt.Errorf("archive has %d members %v, the view has %d entries %v", len(members), names, len(want), pathsOf(want))
	}
	for i, m := range members {
		w := want[i]
		st := w.Stat
		hdr := m.hdr
		mode := os.FileMode(st.Mode)
		name := w.Path
		if mode.IsDir() {
			name += "/"
		}
		if hdr.Name != name {
			return fmt.Errorf("member %d is named %q, expected %q (walk order, directories with a trailing slash)", i, hdr.Name, name)
		}
		if len(name) > 100 {
			nt = true
			env.Class("name>100")
		}
		var wantType byte
		switch {
		case mode.IsDir():
			wantType = tar.TypeDir
		case mode&os.ModeSymlink != 0:
			wantType = tar.TypeSymlink
		case st.Linkname != "":
			wantType = tar.TypeLink
		case mode&os.ModeNamedPipe != 0:
			wantType = tar.TypeFifo
		case mode&os.ModeCharDevice != 0:
			wantType = tar.TypeChar
		case mode&os.ModeDevice != 0:
			wantType = tar.TypeBlock
		default:
			wantType = tar.TypeReg
		}
		if hdr.Typeflag != wantType {
			return fmt.Errorf("member %q has type %q, expected %q", hdr.Name, hdr.Typeflag, wantType)
		}
		if wantType == tar.TypeSymlink || wantType == tar.TypeLink {
			nt = true
			if hdr.Linkname != st.Linkname {
				return fmt.Errorf("member %q links to %q, expected %q", hdr.Name, hdr.Linkname, st.Linkname)
			}
			if hdr.Size != 0 || len(m.data) != 0 {
				return fmt.Errorf("link member %q carries a payload (size %d)", hdr.Name, hdr.Size)
			}
		}
		if wantType == tar.TypeReg {
			wantData := content(w.Path)
			if len(wantData) == 0 {
				nt = true
			}
			if !bytes.Equal(m.data, wantData) {
				return fmt.Errorf("member %q carries %d bytes, the file has %d (first difference at %d)", hdr.Name, len(m.data), len(wantData), firstDiff(m.data, wantData))
			}
		}
		if wantType == tar.TypeChar || wantType == tar.TypeBlock {
			if hdr.Devmajor != st.Devmajor || hdr.Devminor != st.Devminor {
				return fmt.Errorf("member %q has device %d:%d, expected %d:%d", hdr.Name, hdr.Devmajor, hdr.Devminor, st.Devmajor, st.Devminor)
			}
		}
		// mode bits (tar uses the unix layout), owner, mtime to the second
		n := h.Node{}
		wantMode := int64(mode.Perm())
		if mode&os.ModeSetuid != 0 {
			wantMode |= 0o4000
		}
		if mode&os.ModeSetgid != 0 {
			wantMode |= 0o2000
		}
		if mode&os.ModeSticky != 0 {
			wantMode |= 0o1000
		}
		_ = n
		if hdr.Mode&0o7777 != wantMode {
			return fmt.Errorf("member %q has mode %04o, expected %04o", hdr.Name, hdr.Mode&0o7777, wantMode)
		}
		if hdr.Uid != int(st.Uid) || hdr.Gid != int(st.Gid) {
			return fmt.Errorf("member %q has owner %d:%d, expected %d:%d", hdr.Name, hdr.Uid, hdr.Gid, st.Uid, st.Gid)
		}
		// "to the second": the second the instant lies in, or the nearest one
		// (archive/tar rounds when it writes whole seconds)
		floor, near := secFloor(st.ModTime), time.Unix(0, st.ModTime).Round(time.Second).Unix()
		if got := hdr.ModTime.Unix(); got != floor && got != near {
			return fmt.Errorf("member %q has mtime %d s, expected %d s (or %d s if rounded)", hdr.Name, got, floor, near)
		}
		// xattrs as SCHILY.xattr records
		gotX := map[string]string{}
		for k, v := range hdr.PAXRecords {
			if strings.HasPrefix(k, "SCHILY.xattr.") {
				gotX[strings.TrimPrefix(k, "SCHILY.xattr.")] = v
			}
		}
		if len(st.Xattrs) > 0 {
			nt = true
		}
		if len(gotX) != len(st.Xattrs) {
			return fmt.Errorf("member %q carries xattr records %q, the entry has %q", hdr.Name, gotX, st.Xattrs)
		}
		for k, v := range st.Xattrs {
			if gv, ok := gotX[k]; !ok || gv != string(v) {
				return fmt.Errorf("member %q: xattr %q = %q, expected %q", hdr.Name, k, gv, v)
			}
		}
	}
	if nt {
		env.NonTrivial()
	}
	env.Class("view-" + c.View)
	// extraction reproduces the view
	outDir := filepath.Join(env.Scratch, "out")
	if err := os.Mkdir(outDir, 0o755); err != nil {
		return h.Infra(err)
	}
	if err := extractTar(members, outDir); err != nil {
		return fmt.Errorf("extracting the archive: %v", err)
	}
	if err := c17Compare(outDir, viewTree, "own extractor"); err != nil {
		return err
	}
	if env.Tier() == "thorough" && c.View != "mem" {
		gnu := filepath.Join(env.Scratch, "gnu")
		if err := os.Mkdir(gnu, 0o755); err != nil {
			return h.Infra(err)
		}
		cmd := exec.Command("tar", "-x", "-p", "--same-owner", "--xattrs", "--xattrs-include=*", "-C", gnu, "-f", "-")
		cmd.Stdin = bytes.NewReader(buf.Bytes())
		if out, err := cmd.CombinedOutput(); err != nil {
			return fmt.Errorf("GNU tar rejects the archive: %v: %s", err, out)
		}
		env.Class("gnu-tar-extracted")
		if err := c17Compare(gnu, viewTree, "GNU tar"); err != nil {
			return err
		}
	}
	return nil
}

func c17Compare(dir string, viewTree *h.Tree, who string) error {
	snap, err := h.Snapshot(dir)
	if err != nil {
		return h.Infra(err)
	}
	vt := viewTree.Clone()
	want := h.ExpectedSnap(vt)
	// tar carries whole seconds, rounded to nearest or truncated: accept either
	for p, w := range want {
		if g := snap[p]; g != nil && (secFloor(g.Mtime) == secFloor(w.Mtime) || secFloor(g.Mtime) == time.Unix(0, w.Mtime).Round(time.Second).Unix()) {
			w.Mtime = g.Mtime
		}
	}
	errs := h.DiffSnap(snap, want, h.CmpOpt{SecondMtime: true, AllDirMtime: true, AllDirXattrs: true, AllXattrs: false})
	gid := map[string]string{}
	for p, f := range h.ExpectedGroups(vt) {
		gid[p] = f
	}
	if got, wantp := fmt.Sprint(partitionOf(snap)), fmt.Sprint(expectedPartition(gid)); got != wantp {
		errs.Addf("hard-link partition %s want %s", got, wantp)
	}
	if errs.Len() > 0 {
		return fmt.Errorf("tree extracted by %s differs from the view: %v", who, errs.Err())
	}
	return nil
}

// extractTar is a deliberately small extractor (independent of GNU tar).
func extractTar(ms []tarMember, dir string) error {
	type dirTime struct {
		p string
		t int64
	}
	var dirs []dirTime
	for _, m := range ms {
		hdr := m.hdr
		p := filepath.Join(dir, filepath.FromSlash(hdr.Name))
		mode := uint32(hdr.Mode & 0o7777)
		switch hdr.Typeflag {
		case tar.TypeDir:
			if err := os.Mkdir(p, 0o700); err != nil {
				return err
			}
			dirs = append(dirs, dirTime{p, hdr.ModTime.UnixNano()})
		case tar.TypeReg:
			if err := os.WriteFile(p, m.data, 0o600); err != nil {
				return err
			}
		case tar.TypeSymlink:
			if err := os.Symlink(hdr.Linkname, p); err != nil {
				return err
			}
		case tar.TypeLink:
			if err := os.Link(filepath.Join(dir, filepath.FromSlash(hdr.Linkname)), p); err != nil {
				return err
			}
			continue // shares the inode's metadata
		case tar.TypeFifo:
			if err := unix.Mknod(p, unix.S_IFIFO|0o600, 0); err != nil {
				return err
			}
		case tar.TypeChar:
			if err := unix.Mknod(p, unix.S_IFCHR|0o600, int(unix.Mkdev(uint32(hdr.Devmajor), uint32(hdr.Devminor)))); err != nil {
				return err
			}
		case tar.TypeBlock:
			if err := unix.Mknod(p, unix.S_IFBLK|0o600, int(unix.Mkdev(uint32(hdr.Devmajor), uint32(hdr.Devminor)))); err != nil {
				return err
			}
		default:
			return fmt.Errorf("member %q: unsupported type %q", hdr.Name, hdr.Typeflag)
		}
		for k, v := range hdr.PAXRecords {
			if strings.HasPrefix(k, "SCHILY.xattr.") {
				if err := unix.Lsetxattr(p, strings.TrimPrefix(k, "SCHILY.xattr."), []byte(v), 0); err != nil {
					return fmt.Errorf("%s: xattr %s: %v", hdr.Name, k, err)
				}
			}
		}
		if err := unix.Lchown(p, hdr.Uid, hdr.Gid); err != nil {
			return err
		}
		if hdr.Typeflag != tar.TypeSymlink {
			if err := unix.Chmod(p, mode); err != nil {
				return err
			}
		}
		if hdr.Typeflag != tar.TypeDir {
			if err := h.SetMtime(p, hdr.ModTime.UnixNano()); err != nil {
				return err
			}
		}
	}
	for i := len(dirs) - 1; i >= 0; i-- {
		if err := h.SetMtime(dirs[i].p, dirs[i].t); err != nil {
			return err
		}
	}
	return nil
}

var _ = types.PACKET_STAT

// secFloor is the whole second an instant (ns since the epoch, may be negative) lies in.
func secFloor(ns int64) int64 {
	s := ns / 1e9
	if ns%1e9 < 0 {
		s--
	}
	return s
}

func TestC17(t *testing.T) {
	h.Run(t, "C17", genC17, c17Check)
}

// patternsDiverge reports whether the dependency's two evaluators
// (MatchesOrParentMatches vs the MatchesUsingParentResults chain) disagree on p
// for one of the lists: the signature of the known dependency finding.
func patternsDiverge(p string, lists ...[]string) bool {
	for _, pats := range lists {
		rm, e1 := h.NewRefMatcher(pats)
		cm, e2 := h.NewChainMatcher(pats)
		if e1 != nil || e2 != nil || rm == nil {
			continue
		}
		a, _ := rm.Match(p)
		b, _ := cm.Match(p)
		if a != b {
			return true
		}
	}
	return false
}
