package checks

import (
	"encoding/json"
	"fmt"
	"io"
	"os"
	"os/exec"
	"strings"
	"syscall"
	"testing"

	"github.com/tonistiigi/fsutil"
)

// TestMain dispatches helper roles: the test binary re-executes itself as a
// sub-process that chroots into a throw-away jail before it runs code that is
// deliberately fed hostile input (C03, C14), or that drops privileges (C01's
// unprivileged receiver).
func TestMain(m *testing.M) {
	switch os.Getenv("VERIF_HELPER") {
	case "":
		os.Exit(m.Run())
	case "jail":
		os.Exit(jailMain())
	case "recvproc":
		os.Exit(recvProcMain())
	default:
		fmt.Fprintln(os.Stderr, "unknown helper role")
		os.Exit(3)
	}
}

// TestSmoke is run by `./check --setup`: the module graph resolves offline and
// the library links.
func TestSmoke(t *testing.T) {
	if fsutil.ComparePath("a", "b") >= 0 {
		t.Fatal("unexpected")
	}
}

// jailRequest is what the parent sends to the chrooted helper.
type jailRequest struct {
	Root string          `json:"root"` // directory to chroot into
	Op   string          `json:"op"`   // receive | copy
	Uid  int             `json:"uid"`  // drop to this uid/gid after chroot (0 = stay)
	Arg  json.RawMessage `json:"arg"`
}

type jailResponse struct {
	Err    string          `json:"err,omitempty"` // helper-level failure (infrastructure)
	Result json.RawMessage `json:"result,omitempty"`
}

func jailMain() int {
	var req jailRequest
	dt, err := io.ReadAll(os.Stdin)
	if err == nil {
		err = json.Unmarshal(dt, &req)
	}
	reply := func(r jailResponse) int {
		out, _ := json.Marshal(r)
		os.Stdout.Write(out)
		return 0
	}
	if err != nil {
		return reply(jailResponse{Err: "bad request: " + err.Error()})
	}
	if err := syscall.Chroot(req.Root); err != nil {
		return reply(jailResponse{Err: "chroot: " + err.Error()})
	}
	if err := os.Chdir("/"); err != nil {
		return reply(jailResponse{Err: "chdir: " + err.Error()})
	}
	if req.Uid != 0 {
		if err := syscall.Setgroups(nil); err != nil {
			return reply(jailResponse{Err: "setgroups: " + err.Error()})
		}
		if err := syscall.Setgid(req.Uid); err != nil {
			return reply(jailResponse{Err: "setgid: " + err.Error()})
		}
		if err := syscall.Setuid(req.Uid); err != nil {
			return reply(jailResponse{Err: "setuid: " + err.Error()})
		}
	}
	var res any
	switch req.Op {
	case "receive":
		res, err = jailReceive(req.Arg)
	case "copy":
		res, err = jailCopy(req.Arg)
	case "sync":
		res, err = jailSync(req.Arg)
	case "walk":
		res, err = jailWalk(req.Arg)
	default:
		err = fmt.Errorf("unknown op %q", req.Op)
	}
	if err != nil {
		return reply(jailResponse{Err: err.Error()})
	}
	out, _ := json.Marshal(res)
	return reply(jailResponse{Result: out})
}

// runJailed re-executes the test binary as a chrooted helper.
func runJailed(root, op string, uid int, arg any, result any) error {
	argb, err := json.Marshal(arg)
	if err != nil {
		return err
	}
	reqb, _ := json.Marshal(jailRequest{Root: root, Op: op, Uid: uid, Arg: argb})
	exe, err := os.Executable()
	if err != nil {
		return err
	}
	cmd := exec.Command(exe)
	cmd.Env = append(os.Environ(), "VERIF_HELPER=jail")
	cmd.Stdin = bytesReader(reqb)
	var stderr limitedBuf
	cmd.Stderr = &stderr
	out, err := cmd.Output()
	if err != nil {
		if s := stderr.String(); strings.Contains(s, "panic:") || strings.Contains(s, "fatal error:") {
			return &helperCrash{Stderr: s}
		}
		return fmt.Errorf("jail helper: %v: %s", err, stderr.String())
	}
	var resp jailResponse
	if err := json.Unmarshal(out, &resp); err != nil {
		return fmt.Errorf("jail helper: bad reply %q (stderr %s)", out, stderr.String())
	}
	if resp.Err != "" {
		return fmt.Errorf("jail helper: %s", resp.Err)
	}
	return json.Unmarshal(resp.Result, result)
}

// helperCrash: the code under test brought the whole helper process down.
type helperCrash struct{ Stderr string }

func (h *helperCrash) Error() string {
	s := h.Stderr
	if len(s) > 1500 {
		s = s[:1500] + "..."
	}
	return "process crashed: " + s
}

type limitedBuf struct{ b []byte }

func (l *limitedBuf) Write(p []byte) (int, error) {
	if len(l.b) < 16<<10 {
		l.b = append(l.b, p...)
	}
	return len(p), nil
}
func (l *limitedBuf) String() string { return string(l.b) }

type sliceReader struct {
	b []byte
}

func (s *sliceReader) Read(p []byte) (int, error) {
	if len(s.b) == 0 {
		return 0, io.EOF
	}
	n := copy(p, s.b)
	s.b = s.b[n:]
	return n, nil
}

func bytesReader(b []byte) io.Reader { return &sliceReader{b} }
