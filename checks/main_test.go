package checks

import (
	"testing"

	"github.com/tonistiigi/fsutil"
)

// TestSmoke is run by `./check --setup`: the module graph resolves offline and
// the library links.
func TestSmoke(t *testing.T) {
	if fsutil.ComparePath("a", "b") >= 0 {
		t.Fatal("unexpected")
	}
}
