package checks

import (
	"encoding/binary"
	"fmt"
	"os"
	"path"
	"path/filepath"
	"sort"
	"strings"
	"testing"

	"github.com/tonistiigi/fsutil"
	"github.com/tonistiigi/fsutil/types"
	"pgregory.net/rapid"

	h "verif/harness"
)

// ---------------------------------------------------------------------------
// C19: metadata-only transfer

const listingName = ".fsutil-metadata"
const bigStatName = "zz-bigstat"

type c19Case struct {
	Tree     *h.Tree  `json:"tree"`
	Many     int      `json:"many"`     // extra entries big/e0000.. to grow the listing beyond several 32 KiB chunks
	BigXattr int      `json:"bigxattr"` // size of an xattr value on one entry (single stat larger than a chunk)
	Selected []string `json:"selected"` // selector (closed under link source by the generator)
	SelMode  string   `json:"selmode"`
	Dst      *h.Tree  `json:"dst"`
	DstMeta  string   `json:"dstmeta"` // what the prior destination holds under the listing name: "", file, symlink, dangling, dir
	Merge    bool     `json:"merge"`
	MemSrc   bool     `json:"memsrc"`
	Capacity int      `json:"capacity"`
	// CrossFS: the destination lies on another file system than the process's
	// temporary directory
	CrossFS bool `json:"crossfs,omitempty"`
	// Reject: the receiver's Filter turns these down (unselected regular files
	// without link relations): they were announced, so the listing records them
	Reject []string `json:"reject,omitempty"`
}

var c19TreeCfg = h.TreeCfg{
	MaxEntries: 12, MaxDepth: 3, Names: []string{"a", "b", "ab", "a-b", "a.b", "c", "lib", "lib64", listingName, "d"},
	Kinds:  []h.Kind{h.KFile, h.KFile, h.KFile, h.KSymlink, h.KFifo},
	Xattrs: true, Hardlinks: true, BigFiles: true,
}

func c19Tree(c *c19Case) *h.Tree {
	tr := c.Tree.Clone()
	if c.Many > 0 {
		if _, ok := tr.Index()["big"]; !ok {
			tr.Nodes = append(tr.Nodes, h.Node{Path: "big", Kind: h.KDir, Perm: 0o755, Mtime: 5})
			for i := 0; i < c.Many; i++ {
				// records of very different sizes, so that a later small record would fit into the
				// space left at the end of an earlier buffer chunk
				tr.Nodes = append(tr.Nodes, h.Node{Path: fmt.Sprintf("big/e%04d-%s", i, strings.Repeat("n", 5+(i*37)%200)), Kind: h.KFile, Perm: 0o644, Mtime: 7, Seed: uint32(1 + i), Size: 3})
			}
		}
	}
	if c.BigXattr > 0 {
		// one stat larger than a buffer chunk; the entry itself is never selected
		// (the scratch filesystem cannot hold such an xattr)
		if _, ok := tr.Index()[bigStatName]; !ok {
			tr.Nodes = append(tr.Nodes, h.Node{Path: bigStatName, Kind: h.KFile, Perm: 0o644, Mtime: 9, Seed: 5, Size: 4, Xattrs: map[string][]byte{"user.big": h.Content(9, c.BigXattr)}})
		}
	}
	// a hard link whose source is the root entry with the listing name cannot be
	// materialised (that entry is never transferred): outside the property's domain
	for i := range tr.Nodes {
		if tr.Nodes[i].LinkTo == listingName {
			tr.Nodes[i].LinkTo = ""
		}
	}
	tr.Normalize()
	return tr
}

func genC19(t *rapid.T) *c19Case {
	c := &c19Case{Tree: h.GenTree(t, c19TreeCfg, "t")}
	if rapid.IntRange(0, 7).Draw(t, "many") == 0 {
		c.Many = rapid.SampledFrom([]int{300, 700, 1800}).Draw(t, "nmany")
	}
	c.MemSrc = rapid.Bool().Draw(t, "memsrc")
	if c.MemSrc && rapid.IntRange(0, 5).Draw(t, "bigx") == 0 {
		c.BigXattr = rapid.SampledFrom([]int{32768, 33000, 70000}).Draw(t, "bigxn")
	}
	tr := c19Tree(c)
	c.SelMode = rapid.SampledFrom([]string{"none", "all", "files", "dirs", "subset", "subset", "subset"}).Draw(t, "selmode")
	sel := map[string]bool{}
	for _, n := range tr.Nodes {
		switch c.SelMode {
		case "all":
			sel[n.Path] = true
		case "files":
			sel[n.Path] = n.Kind != h.KDir
		case "dirs":
			sel[n.Path] = n.Kind == h.KDir
		case "subset":
			if !strings.HasPrefix(n.Path, "big/") || rapid.IntRange(0, 20).Draw(t, "selbig"+n.Path) == 0 {
				sel[n.Path] = rapid.IntRange(0, 2).Draw(t, "sel"+n.Path) == 0
			}
		}
	}
	delete(sel, bigStatName)
	// closed under "link source of a selected link"
	for _, n := range tr.Nodes {
		if sel[n.Path] && n.LinkTo != "" {
			sel[n.LinkTo] = true
		}
	}
	for p, s := range sel {
		if s {
			c.Selected = append(c.Selected, p)
		}
	}
	sort.Strings(c.Selected)
	switch rapid.IntRange(0, 3).Draw(t, "dstmode") {
	case 0:
	case 1:
		c.Dst = h.GenTree(t, c19TreeCfg, "dst")
	default:
		d := c.Tree
		for i := 0; i < rapid.IntRange(0, 3).Draw(t, "nedits"); i++ {
			d, _ = h.GenEdit(t, d, fmt.Sprintf("e%d", i), c19TreeCfg.Names)
		}
		c.Dst = d
	}
	h.AlignIdentical(tr, c.Dst, false, 0, 0)
	c.DstMeta = rapid.SampledFrom([]string{"", "", "file", "symlink", "dangling", "dir"}).Draw(t, "dstmeta")
	c.Merge = rapid.IntRange(0, 3).Draw(t, "merge") == 0
	if c.Merge && c.DstMeta == "dir" {
		// the quantifier lists an old listing file or symlink; an old *directory* of
		// that name is only removed by the non-merge stale-entry pass
		c.DstMeta = "file"
	}
	c.Capacity = rapid.SampledFrom([]int{0, 1, 8, 64}).Draw(t, "cap")
	if rapid.IntRange(0, 2).Draw(t, "reject") == 0 && (c.Dst == nil || len(c.Dst.Nodes) == 0) {
		// (fresh destinations only: what a rejecting filter means for old entries of the
		// same name is not part of the statement)
		linked := map[string]bool{}
		for _, n := range c.Tree.Nodes {
			if n.LinkTo != "" {
				linked[n.Path], linked[n.LinkTo] = true, true
			}
		}
		for _, n := range c.Tree.Nodes {
			if n.Kind == h.KFile && !linked[n.Path] && n.Path != listingName && !selOrig(c, n.Path) && rapid.IntRange(0, 1).Draw(t, "rej."+n.Path) == 0 {
				c.Reject = append(c.Reject, n.Path)
			}
		}
	}
	// (only with attribute values any file system can hold)
	if rapid.IntRange(0, 5).Draw(t, "crossfs") == 0 && c.BigXattr == 0 && smallXattrs(c.Tree) && smallXattrs(c.Dst) {
		c.CrossFS = true
	}
	return c
}

func decodeListing(dt []byte) ([]*types.Stat, error) {
	var out []*types.Stat
	for len(dt) > 0 {
		if len(dt) < 4 {
			return nil, fmt.Errorf("truncated length prefix (%d bytes left)", len(dt))
		}
		n := int(binary.LittleEndian.Uint32(dt[:4]))
		dt = dt[4:]
		if n > len(dt) {
			return nil, fmt.Errorf("record of %d bytes but only %d left", n, len(dt))
		}
		st := &types.Stat{}
		if err := st.UnmarshalVT(dt[:n]); err != nil {
			return nil, fmt.Errorf("record %d does not decode: %v", len(out), err)
		}
		out = append(out, st)
		dt = dt[n:]
	}
	return out, nil
}

func c19Check(env *h.Env, c *c19Case) error {
	tr := c19Tree(c)
	dstTree := c.Dst
	if dstTree != nil {
		// the prior destination's listing-name entry is planted separately
		dstTree = dstTree.Clone()
		var keep []h.Node
		for _, n := range dstTree.Nodes {
			if n.Path != listingName && !strings.HasPrefix(n.Path, listingName+"/") {
				keep = append(keep, n)
			}
		}
		dstTree.Nodes = keep
		dstTree.Normalize()
	}
	env.DstOtherFS = c.CrossFS
	f, dstDir, err := syncSetup(env, tr, dstTree, c.MemSrc, true)
	if err != nil {
		return err
	}
	outside := filepath.Join(env.Scratch, "outside-target")
	mp := filepath.Join(dstDir, listingName)
	switch c.DstMeta {
	case "file":
		os.WriteFile(mp, []byte("stale listing"), 0o600)
	case "symlink":
		os.WriteFile(outside, []byte("precious"), 0o600)
		os.Symlink(outside, mp)
	case "dangling":
		os.Symlink(outside, mp)
	case "dir":
		os.Mkdir(mp, 0o755)
		os.WriteFile(filepath.Join(mp, "x"), []byte("x"), 0o600)
	}
	before, err := h.Snapshot(dstDir)
	if err != nil {
		return h.Infra(err)
	}
	sel := map[string]bool{}
	for _, p := range c.Selected {
		sel[p] = true
	}
	rejected := map[string]bool{}
	for _, p := range c.Reject {
		rejected[p] = true
		if sel[p] {
			env.Class("selected-entry-turned-down-by-the-filter")
		}
		delete(sel, p) // for everything but the listing it is as if it had not been selected
	}
	var nl h.NotifyLog
	opt := fsutil.ReceiveOpt{
		Merge:         c.Merge,
		NotifyHashed:  nl.Fn,
		ContentHasher: h.Hasher,
		MetadataOnly: func(p string, st *types.Stat) bool {
			if sel[filepath.ToSlash(p)] || rejected[filepath.ToSlash(p)] && selOrig(c, filepath.ToSlash(p)) {
				return true
			}
			// (a selector is a FilterFunc: it may scribble on the stat it turns down;
			// the listing records what was announced)
			// (directories excepted: a turned-down directory is replayed as an ancestor later)
			if !os.FileMode(st.Mode).IsDir() {
				st.ModTime, st.Uid, st.Size = 42, 4242, st.Size+1
			}
			return false
		},
	}
	if len(c.Reject) > 0 {
		opt.Filter = func(p string, st *types.Stat) bool { return !rejected[filepath.ToSlash(p)] }
	}
	res := h.RunSync(f, dstDir, h.SyncOpt{Capacity: c.Capacity, Recv: opt})
	if res.Stuck != "" {
		env.Class("stuck")
		return nil
	}
	idx := tr.Index()
	rootMeta, hasRootMeta := idx[listingName]
	if hasRootMeta {
		env.Class("source-has-listing-name")
		env.NonTrivial()
	}
	rootMetaDirWithChildren := false
	if hasRootMeta && rootMeta.Kind == h.KDir {
		for _, n := range tr.Nodes {
			if strings.HasPrefix(n.Path, listingName+"/") {
				rootMetaDirWithChildren = true
			}
		}
	}
	if res.SendErr != nil || res.RecvErr != nil {
		if rootMetaDirWithChildren {
			// its children lose their parent in the forwarded stream: rejecting is acceptable
			env.Class("root-listing-dir-rejected")
			return nil
		}
		if c.Merge && c.Dst != nil {
			// merge over an arbitrary old tree may legitimately collide (e.g. link over directory)
			env.Class("merge-rejected")
			return nil
		}
		return fmt.Errorf("metadata-only transfer failed: send=%v recv=%v", res.SendErr, res.RecvErr)
	}
	log := res.Pair.Log()
	var announced []*types.Stat
	for _, r := range h.From(log, "S") {
		if r.Type == "STAT" && r.HasStat {
			announced = append(announced, r.Stat)
		}
	}
	// 1. the listing
	dt, err := os.ReadFile(mp)
	if err != nil {
		return fmt.Errorf("no listing file: %v", err)
	}
	if fi, err := os.Lstat(mp); err != nil || !fi.Mode().IsRegular() {
		return fmt.Errorf("listing %q is not a regular file (%v)", listingName, fi.Mode())
	}
	if c.DstMeta == "symlink" {
		if o, _ := os.ReadFile(outside); string(o) != "precious" {
			return fmt.Errorf("listing was written through the old symlink named %s", listingName)
		}
	}
	if c.DstMeta == "dangling" {
		if _, err := os.Lstat(outside); err == nil {
			return fmt.Errorf("listing was written through the old dangling symlink named %s", listingName)
		}
	}
	recs, err := decodeListing(dt)
	if err != nil {
		return fmt.Errorf("listing file: %v", err)
	}
	var wantRecs []*types.Stat
	for _, st := range announced {
		if st.Path == listingName {
			continue
		}
		wantRecs = append(wantRecs, st)
	}
	if len(recs) != len(wantRecs) {
		return fmt.Errorf("listing holds %d records, %d entries were announced (excluding the listing name)", len(recs), len(wantRecs))
	}
	for i := range recs {
		if !recs[i].EqualVT(wantRecs[i]) {
			if err := statEq(recs[i], wantRecs[i]); err != nil {
				return fmt.Errorf("listing record %d (%s) differs from the announced stat: %v", i, wantRecs[i].Path, err)
			}
		}
	}
	if len(dt) > 32*1024 {
		env.Class("listing>32KiB")
		env.NonTrivial()
	}
	if len(dt) > 4*32*1024 {
		env.Class("listing>128KiB")
	}
	if c.BigXattr > 32000 {
		env.Class("stat>chunk")
	}
	// 2. content requests: exactly the selected regular non-link files, by true STAT index
	wantReq := map[string]bool{}
	for _, st := range announced {
		p := st.Path
		if p == listingName || strings.HasPrefix(p, listingName+"/") && false {
			continue
		}
		if sel[p] && isRegular(st) && st.Linkname == "" {
			wantReq[p] = true
		}
	}
	gotReq := map[string]int{}
	for _, r := range h.From(log, "R") {
		if r.Type == "REQ" {
			if int(r.ID) >= len(announced) {
				return fmt.Errorf("REQ for id %d beyond the %d announced entries", r.ID, len(announced))
			}
			gotReq[announced[r.ID].Path]++
		}
	}
	var reqAll []string
	for p := range gotReq {
		reqAll = append(reqAll, p)
	}
	if !c.Merge {
		// with differencing some selected files may already be identical in the old destination
		o := &resyncObs{before: before, announced: announced, annIdx: map[string]*types.Stat{}, destStat: map[string]*types.Stat{}, may: map[string]bool{}, changed: map[string]bool{}, unchanged: map[string]bool{}}
		for _, st := range announced {
			o.annIdx[st.Path] = st
		}
		o.classify(0)
		for p := range wantReq {
			if o.unchanged[p] || o.may[p] {
				delete(wantReq, p)
				delete(gotReq, p)
			}
		}
	}
	for p, n := range gotReq {
		if !wantReq[p] {
			return fmt.Errorf("content requested for %q which is not a selected regular file (selected: %v)", p, c.Selected)
		}
		if n != 1 {
			return fmt.Errorf("content of %q requested %d times", p, n)
		}
	}
	for p := range wantReq {
		if gotReq[p] == 0 {
			return fmt.Errorf("selected file %q was never requested", p)
		}
	}
	// 3. destination minus listing = selected entries + ancestors, stale entries gone
	want := &h.Tree{}
	need := map[string]bool{}
	for _, n := range tr.Nodes {
		if n.Path == listingName || strings.HasPrefix(n.Path, listingName+"/") {
			if n.Path == listingName {
				continue
			}
		}
		if sel[n.Path] {
			need[n.Path] = true
			for d := path.Dir(n.Path); d != "."; d = path.Dir(d) {
				need[d] = true
			}
		}
	}
	delete(need, listingName)
	belowUnselected := false
	for _, n := range tr.Nodes {
		if need[n.Path] {
			want.Nodes = append(want.Nodes, n)
			if d := path.Dir(n.Path); d != "." && !sel[d] && sel[n.Path] {
				belowUnselected = true
			}
		}
	}
	if belowUnselected {
		env.Class("selected-below-unselected-dir")
		env.NonTrivial()
	}
	env.Class("sel-" + c.SelMode)
	after, err := h.Snapshot(dstDir)
	if err != nil {
		return h.Infra(err)
	}
	delete(after, listingName)
	delete(before, listingName)
	for p := range before {
		if strings.HasPrefix(p, listingName+"/") {
			delete(before, p)
		}
	}
	if !c.Merge {
		if errs := convergenceErrsLoose(after, before, want, reqAll); errs.Len() > 0 {
			return fmt.Errorf("destination (without the listing) differs from selected entries + ancestors (selected %v): %v", c.Selected, errs.Err())
		}
	} else {
		env.Class("merge")
		for _, p := range after.Paths() {
			_ = p
		}
		for _, n := range want.Nodes {
			if after[n.Path] == nil {
				return fmt.Errorf("merge: selected entry or ancestor %q missing", n.Path)
			}
		}
	}
	// 4. each materialised entry notified at most once, nothing else notified
	seen := map[string]int{}
	for _, n := range nl.Snapshot() {
		if n.Kind == "delete" {
			continue
		}
		seen[n.Path]++
		if seen[n.Path] > 1 {
			return fmt.Errorf("%q notified %d times (notifications: %v)", n.Path, seen[n.Path], fmtNotes(nl.Snapshot()))
		}
		if !need[n.Path] {
			return fmt.Errorf("%q notified but it is neither selected nor an ancestor of a selected entry", n.Path)
		}
	}
	return nil
}

// convergenceErrsLoose is C01's oracle where files with unchanged identity keep
// their old bytes (differencing is active in metadata-only mode too).
func convergenceErrsLoose(after, before h.Snap, want *h.Tree, requested []string) *h.Errs {
	o := &resyncObs{before: before, annIdx: map[string]*types.Stat{}, destStat: map[string]*types.Stat{}, may: map[string]bool{}, changed: map[string]bool{}, unchanged: map[string]bool{}}
	mem := &h.MemFS{T: want, LinkSizeFull: true}
	o.announced = mem.Stats()
	for _, st := range o.announced {
		o.annIdx[st.Path] = st
	}
	o.classify(0)
	o.reqPaths = requested
	return convergenceErrs(after, before, want, 0, o.keepOld(0))
}

func TestC19(t *testing.T) {
	h.Run(t, "C19", genC19, c19Check)
}

// smallXattrs: every entry's extended attributes fit what ext4 stores inline.
func smallXattrs(t *h.Tree) bool {
	if t == nil {
		return true
	}
	for _, n := range t.Nodes {
		total := 0
		for k, v := range n.Xattrs {
			total += len(k) + len(v) + 16
		}
		if total > 400 {
			return false
		}
	}
	return true
}

func selOrig(c *c19Case, p string) bool {
	for _, q := range c.Selected {
		if q == p {
			return true
		}
	}
	return false
}
