package checks

import (
	"fmt"
	"os"
	"path"
	"path/filepath"
	"sort"
	"strings"

	"github.com/tonistiigi/fsutil"
	"github.com/tonistiigi/fsutil/types"
	"pgregory.net/rapid"

	h "verif/harness"
)

// Shared machinery of C02 (incremental minimality) and C05 (notifications):
// edit histories with a re-sync after every batch of edits.

type histCase struct {
	Steps       []*h.Tree  `json:"steps"` // Steps[0] = initial source; Steps[k] = source before re-sync k
	Edits       [][]string `json:"edits"` // descriptions, informational
	MemSrc      bool       `json:"memsrc"`
	MemLinkFull bool       `json:"memlinkfull"`
	ReadStyle   int        `json:"readstyle,omitempty"`
	DiffNone    []bool     `json:"diffnone"` // per re-sync
	Capacity    int        `json:"capacity"`
	Filter      int        `json:"filter"` // receiver filter: 0 none, 1 owner->0:0, 2 owner->1000:1001
	// DstViaLink: the destination directory is named through a symbolic link
	DstViaLink bool `json:"dst_via_link,omitempty"`
}

var histTreeCfg = h.TreeCfg{
	MaxEntries: 10, MaxDepth: 3, Names: []string{"a", "b", "ab", "a-b", "a.b", "c", "a0", "d", listingName},
	Xattrs: true, XattrNS: []string{"user.", "trusted."}, Hardlinks: true, SpecialLinks: true, BigFiles: true,
	SymTargets: []string{"a", "b", "../a", "/a", "dangling"}, UncleanTargets: true,
}

func genHist(t *rapid.T, allowDiffNone bool) *histCase {
	c := &histCase{}
	cur := h.GenTree(t, histTreeCfg, "init")
	c.Steps = append(c.Steps, cur)
	c.Edits = append(c.Edits, nil)
	n := rapid.IntRange(1, 4).Draw(t, "nsync")
	for k := 1; k <= n; k++ {
		ne := rapid.SampledFrom([]int{0, 1, 1, 2, 3, 4}).Draw(t, fmt.Sprintf("nedit%d", k))
		var ds []string
		for i := 0; i < ne; i++ {
			var d string
			cur, d = h.GenEdit(t, cur, fmt.Sprintf("s%d.e%d", k, i), histTreeCfg.Names)
			ds = append(ds, d)
		}
		c.Steps = append(c.Steps, cur)
		c.Edits = append(c.Edits, ds)
		c.DiffNone = append(c.DiffNone, allowDiffNone && rapid.IntRange(0, 4).Draw(t, fmt.Sprintf("dn%d", k)) == 0)
	}
	c.MemSrc = rapid.Bool().Draw(t, "memsrc")
	c.DstViaLink = rapid.IntRange(0, 4).Draw(t, "dstvialink") == 0
	c.MemLinkFull = rapid.IntRange(0, 3).Draw(t, "memlinkfull") != 0
	c.Capacity = rapid.SampledFrom([]int{0, 1, 8, 64}).Draw(t, "cap")
	c.Filter = rapid.SampledFrom([]int{0, 0, 0, 1, 2, 3}).Draw(t, "filter")
	c.ReadStyle = rapid.IntRange(0, 3).Draw(t, "readstyle")
	return c
}

type idKey struct {
	Mode       uint32
	Uid, Gid   uint32
	Link       string
	Maj, Min   int64
	Size, Time int64
}

func keyOf(st *types.Stat) idKey {
	k := idKey{Mode: st.Mode, Uid: st.Uid, Gid: st.Gid, Link: st.Linkname, Maj: st.Devmajor, Min: st.Devminor}
	if !st.IsDir() {
		k.Size, k.Time = st.Size, st.ModTime
	}
	return k
}

type resyncObs struct {
	before, after h.Snap
	announced     []*types.Stat // STATs in order (without the terminating empty one)
	annIdx        map[string]*types.Stat
	destStat      map[string]*types.Stat // the destination's own stat of every old entry
	reqPaths      []string
	notes         []h.Note
	res           *h.SyncResult
	may           map[string]bool
	changed       map[string]bool // announced paths whose key differs from the old destination's (or new)
	unchanged     map[string]bool
	removedTop    []string
	dstDir        string
}

func isRegular(st *types.Stat) bool { return os.FileMode(st.Mode)&os.ModeType == 0 }

// runResync performs one re-sync of srcTree into dstDir and derives, from the
// packet log and two snapshots, everything the C02/C05 oracles need.
func runResync(env *h.Env, srcTree *h.Tree, c *histCase, step int, diffNone bool, dstDir string, notify bool) (*resyncObs, error) {
	var f fsutil.FS
	if c.MemSrc {
		f = &h.MemFS{T: srcTree, LinkSizeFull: c.MemLinkFull, ReadStyle: c.ReadStyle}
	} else {
		srcDir := filepath.Join(env.Scratch, fmt.Sprintf("src%d", step))
		if err := os.Mkdir(srcDir, 0o755); err != nil {
			return nil, h.Infra(err)
		}
		if err := h.Materialise(srcTree, srcDir); err != nil {
			return nil, h.Infra(err)
		}
		var err error
		if f, err = fsutil.NewFS(srcDir); err != nil {
			return nil, h.Infra(err)
		}
	}
	o := &resyncObs{dstDir: dstDir, annIdx: map[string]*types.Stat{}, destStat: map[string]*types.Stat{}, may: map[string]bool{}, changed: map[string]bool{}, unchanged: map[string]bool{}}
	var err error
	if o.before, err = h.Snapshot(dstDir); err != nil {
		return nil, h.Infra(err)
	}
	opt := fsutil.ReceiveOpt{Filter: ownerFilter(c.Filter)}
	if diffNone {
		opt.Differ = fsutil.DiffNone
	}
	var nl h.NotifyLog
	if notify {
		opt.NotifyHashed = nl.Fn
		opt.ContentHasher = h.Hasher
	}
	recvDir := dstDir
	if c.DstViaLink {
		// the same directory, named through a symbolic link
		recvDir = dstDir + ".link"
		os.Remove(recvDir)
		if err := os.Symlink(filepath.Base(dstDir), recvDir); err != nil {
			return nil, h.Infra(err)
		}
	}
	o.res = h.RunSync(f, recvDir, h.SyncOpt{Capacity: c.Capacity, Recv: opt})
	if o.res.Stuck != "" || o.res.SendErr != nil || o.res.RecvErr != nil {
		return o, nil
	}
	o.notes = nl.Snapshot()
	if o.after, err = h.Snapshot(dstDir); err != nil {
		return nil, h.Infra(err)
	}
	log := o.res.Pair.Log()
	for _, r := range h.From(log, "S") {
		if r.Type == "STAT" && r.HasStat {
			o.announced = append(o.announced, r.Stat)
			o.annIdx[r.Stat.Path] = r.Stat
		}
	}
	for _, r := range h.From(log, "R") {
		if r.Type == "REQ" {
			if int(r.ID) >= len(o.announced) {
				return o, fmt.Errorf("REQ for id %d but only %d entries were announced", r.ID, len(o.announced))
			}
			o.reqPaths = append(o.reqPaths, o.announced[r.ID].Path)
		}
	}
	o.classify(c.Filter)
	return o, nil
}

// classify derives changed/unchanged/may/removedTop from o.announced and o.before.
func (o *resyncObs) classify(filter int) {
	for _, w := range expectWalk(o.before, func(string) bool { return true }) {
		o.destStat[w.Path] = w.Stat
	}
	for _, st := range o.announced {
		d, ok := o.destStat[st.Path]
		if !ok {
			o.changed[st.Path] = true
			continue
		}
		// the receiver compares the stat as rewritten by its filter
		fst := st
		if flt := ownerFilter(filter); flt != nil {
			fst = st.Clone()
			flt(fst.Path, fst)
		}
		if keyOf(fst) == keyOf(d) {
			o.unchanged[st.Path] = true
			continue
		}
		o.changed[st.Path] = true
	}
	// the timing-dependent hard-link exception: an old link member whose named
	// first member is deleted or replaced by this sync may be seen by the
	// destination walker either as a link or (after the first member is gone) as
	// a plain file, so with Linkname ignored on the destination side its verdict
	// may flip either way
	for p, d := range o.destStat {
		if d.Linkname == "" || os.FileMode(d.Mode)&os.ModeSymlink != 0 {
			continue
		}
		first := d.Linkname
		_, firstAnnounced := o.annIdx[first]
		if firstAnnounced && o.unchanged[first] {
			continue
		}
		if _, ok := o.annIdx[p]; ok {
			o.may[p] = true
		}
	}
	// likewise any other old member of a group whose first member goes away:
	// the walker elects a different first member depending on timing
	for p := range o.may {
		_ = p
	}
	for _, p := range o.before.Paths() {
		if _, ok := o.annIdx[p]; ok {
			continue
		}
		par := path.Dir(p)
		if par == "." {
			o.removedTop = append(o.removedTop, p)
			continue
		}
		if ps, ok := o.annIdx[par]; ok && ps.IsDir() && o.before[par].Kind == h.KDir {
			o.removedTop = append(o.removedTop, p)
		}
	}
	sort.Strings(o.removedTop)
}

// keepOld tells which announced files legitimately keep the bytes the old
// destination had: files whose identity did not change, and - under the
// hard-link timing exception - old link members that the destination walker
// may have seen as plain files: if their identity is otherwise equal and no
// content was requested for them, they keep what they had.
func (o *resyncObs) keepOld(filter int) func(string) bool {
	requested := map[string]bool{}
	for _, p := range o.reqPaths {
		requested[p] = true
	}
	return func(p string) bool {
		if !o.may[p] {
			return o.unchanged[p]
		}
		st, d := o.annIdx[p], o.destStat[p]
		if st == nil || d == nil || requested[p] {
			return false
		}
		fst := st
		if flt := ownerFilter(filter); flt != nil {
			fst = st.Clone()
			flt(fst.Path, fst)
		}
		a, b := keyOf(fst), keyOf(d)
		a.Link, b.Link = "", ""
		return a == b
	}
}

func sortedKeys(m map[string]bool) []string {
	out := make([]string, 0, len(m))
	for k := range m {
		out = append(out, k)
	}
	sort.Strings(out)
	return out
}

func sameStrings(a, b []string) bool { return strings.Join(a, "\x00") == strings.Join(b, "\x00") }
