package checks

import (
	"context"
	"errors"
	"fmt"
	"os"
	"path"
	"path/filepath"
	"sort"
	"strings"
	"sync"
	"testing"
	"time"

	mode "github.com/tonistiigi/dchapes-mode"
	"github.com/tonistiigi/fsutil"
	fscopy "github.com/tonistiigi/fsutil/copy"
	"pgregory.net/rapid"

	h "verif/harness"
)

// ---------------------------------------------------------------------------
// C13: Copy preserves the tree like cp -a, under every option combination

type c13Case struct {
	Tree    *h.Tree `json:"tree"`
	What    string  `json:"what"`    // tree | subdir | file | symlink | special
	SrcPath string  `json:"srcpath"` // for everything but "tree"
	Follow  bool    `json:"follow"`
	DstKind string  `json:"dstkind"` // root | new | nested | existingdir
	// options
	Chown   []int  `json:"chown,omitempty"`   // uid,gid
	OctMode *int   `json:"octmode,omitempty"` // 12-bit octal mode
	SymMode string `json:"symmode,omitempty"`
	Utime   *int64 `json:"utime,omitempty"` // ns
	XattrEH bool   `json:"xattreh"`
	Notify  bool   `json:"notify"`
	// CrossFS: the destination root lies on another file system than the source
	// (tmpfs <-> the disk-backed one), where in-kernel copy shortcuts do not apply
	CrossFS bool `json:"crossfs,omitempty"`
	// DstSetgid: the destination root is a set-group-ID directory of another group,
	// so new entries inherit that group until their owner is set explicitly
	DstSetgid bool `json:"dst_setgid,omitempty"`
}

var c13TreeCfg = h.TreeCfg{
	MaxEntries: 12, MaxDepth: 3, Names: []string{"a", "b", "ab", "a-b", "a.b", "c", "sub", "d", "é", "x y"},
	Kinds:  []h.Kind{h.KFile, h.KFile, h.KFile, h.KSymlink, h.KFifo, h.KChar, h.KBlock},
	Xattrs: true, XattrNS: []string{"user.", "trusted."}, Hardlinks: true, BigFiles: true, Caps: true, FarTimes: true, BigXattrs: true,
	SymTargets: []string{"a", "b", "../a", "/a", "/sub", "sub", "dangling", "../../outside", "."},
}

var c13SymModes = []string{"a+X", "go-w", "u=rwX,go=rX", "u+x", "a=r", "o-rwx", "g+w,o-r", "+x", "u=rw,g=r,o=", "a+rX", "u-w", "go=", "ug+x", "o+t", "u+s", "g+s", "a-x,a+X", "=rw,+X"}

func genC13(t *rapid.T) *c13Case {
	c := &c13Case{Tree: h.GenTree(t, c13TreeCfg, "t")}
	pickKind := func(label string, pred func(n *h.Node) bool) string {
		var cand []string
		for i := range c.Tree.Nodes {
			if pred(&c.Tree.Nodes[i]) {
				cand = append(cand, c.Tree.Nodes[i].Path)
			}
		}
		if len(cand) == 0 {
			return ""
		}
		return cand[rapid.IntRange(0, len(cand)-1).Draw(t, label)]
	}
	c.What = rapid.SampledFrom([]string{"tree", "tree", "tree", "subdir", "file", "symlink", "special"}).Draw(t, "what")
	switch c.What {
	case "subdir":
		c.SrcPath = pickKind("src", func(n *h.Node) bool { return n.Kind == h.KDir })
	case "file":
		c.SrcPath = pickKind("src", func(n *h.Node) bool { return n.Kind == h.KFile })
	case "symlink":
		c.SrcPath = pickKind("src", func(n *h.Node) bool { return n.Kind == h.KSymlink })
		c.Follow = rapid.Bool().Draw(t, "follow")
	case "special":
		c.SrcPath = pickKind("src", func(n *h.Node) bool { return n.Kind == h.KFifo || n.Kind == h.KChar || n.Kind == h.KBlock })
	}
	if c.What != "tree" && c.SrcPath == "" {
		c.What = "tree"
	}
	if c.What == "tree" {
		c.DstKind = rapid.SampledFrom([]string{"root", "new", "nested"}).Draw(t, "dstkind")
	} else {
		c.DstKind = rapid.SampledFrom([]string{"new", "nested", "existingdir"}).Draw(t, "dstkind")
	}
	if rapid.Bool().Draw(t, "opts") {
		if rapid.Bool().Draw(t, "chown") {
			c.Chown = []int{rapid.SampledFrom([]int{0, 1000, 4242, 65534}).Draw(t, "uid"), rapid.SampledFrom([]int{0, 1001, 4343}).Draw(t, "gid")}
		}
		switch rapid.IntRange(0, 3).Draw(t, "modeopt") {
		case 1:
			m := rapid.SampledFrom([]int{0o644, 0o755, 0o600, 0o4755, 0o2750, 0o1777, 0o7777, 0, 0o444}).Draw(t, "oct")
			c.OctMode = &m
		case 2:
			c.SymMode = rapid.SampledFrom(c13SymModes).Draw(t, "sym")
		}
		if rapid.Bool().Draw(t, "utime") {
			u := rapid.SampledFrom([]int64{1, 1_600_000_000_123_456_789, 86400_000_000_000, 4_000_000_000_000_000_001}).Draw(t, "ut")
			c.Utime = &u
		}
		c.XattrEH = rapid.Bool().Draw(t, "xeh")
	}
	c.Notify = rapid.Bool().Draw(t, "notify")
	c.CrossFS = rapid.IntRange(0, 3).Draw(t, "crossfs") == 0 && smallXattrs(c.Tree)
	c.DstSetgid = rapid.IntRange(0, 3).Draw(t, "dstsetgid") == 0
	return c
}

func c13Opts(c *c13Case, notes *[]string, mu *sync.Mutex) []fscopy.Opt {
	ci := fscopy.CopyInfo{FollowLinks: c.Follow}
	if c.Chown != nil {
		uid, gid := c.Chown[0], c.Chown[1]
		ci.Chown = func(*fscopy.User) (*fscopy.User, error) { return &fscopy.User{UID: uid, GID: gid}, nil }
	}
	if c.OctMode != nil {
		m := *c.OctMode
		ci.Mode = &m
	}
	ci.ModeStr = c.SymMode
	if c.Utime != nil {
		tm := time.Unix(0, *c.Utime)
		ci.Utime = &tm
	}
	if c.XattrEH {
		ci.XAttrErrorHandler = func(dst, src, key string, err error) error { return nil }
	}
	if c.Notify {
		ci.ChangeFunc = func(k fsutil.ChangeKind, p string, fi os.FileInfo, err error) error {
			mu.Lock()
			*notes = append(*notes, fmt.Sprintf("%s:%s:%v", k, p, fi != nil && fi.IsDir()))
			mu.Unlock()
			return nil
		}
	}
	return []fscopy.Opt{fscopy.WithCopyInfo(ci)}
}

// applyOptions turns the source entry's expected observation into what the
// copy must carry under the case's options.
func c13Expect(c *c13Case, e *h.Entry) (*h.Entry, error) {
	out := *e
	if c.Chown != nil {
		out.Uid, out.Gid = uint32(c.Chown[0]), uint32(c.Chown[1])
	}
	if e.Kind != h.KSymlink {
		if c.SymMode != "" {
			// moby-style symbolic modes are defined by the dchapes-mode dependency
			// (BSD setmode semantics, umask 0) applied to the entry's full source mode
			set, err := mode.ParseWithUmask(c.SymMode, 0)
			if err != nil {
				return nil, err
			}
			n := h.Node{Kind: e.Kind, Perm: e.Perm}
			fm := set.Apply(os.FileMode(n.ModeBits()))
			p := uint32(fm.Perm())
			if fm&os.ModeSetuid != 0 {
				p |= 0o4000
			}
			if fm&os.ModeSetgid != 0 {
				p |= 0o2000
			}
			if fm&os.ModeSticky != 0 {
				p |= 0o1000
			}
			out.Perm = p
		} else if c.OctMode != nil {
			out.Perm = uint32(*c.OctMode) & 0o7777
		}
	}
	if c.Utime != nil {
		out.Mtime = *c.Utime
		out.MtimeSec = secFloor(*c.Utime)
	}
	return &out, nil
}

func c13Check(env *h.Env, c *c13Case) error {
	srcRoot := filepath.Join(env.Scratch, "src")
	dstRoot := filepath.Join(env.Scratch, "dst")
	if c.CrossFS {
		if other := h.OtherFSDir(env.Scratch); other != "" {
			defer h.RemoveAllForce(other)
			dstRoot = filepath.Join(other, "dst")
			env.Class("cross-filesystem")
		}
	}
	for _, d := range []string{srcRoot, dstRoot} {
		if err := os.Mkdir(d, 0o755); err != nil {
			return h.Infra(err)
		}
	}
	if c.DstSetgid {
		if err := os.Chown(dstRoot, 0, 4242); err != nil {
			return h.Infra(err)
		}
		if err := os.Chmod(dstRoot, 0o775|os.ModeSetgid); err != nil {
			return h.Infra(err)
		}
		env.Class("setgid-destination-root")
	}
	if err := h.Materialise(c.Tree, srcRoot); err != nil {
		return h.Infra(err)
	}
	srcSnap, err := h.Snapshot(srcRoot)
	if err != nil {
		return h.Infra(err)
	}
	// what is copied, and where it must land
	src := "/"
	effective := "" // model path of the entry actually copied ("" = root)
	if c.What != "tree" {
		src = c.SrcPath
		effective = c.SrcPath
		if c.What == "symlink" && c.Follow {
			r := h.ResolveIn(c.Tree, c.SrcPath, true)
			if !r.Exists || r.Loop {
				env.Class("follow-unresolvable")
				effective = "\x00unresolvable"
			} else {
				effective = r.Final
			}
		}
	}
	dst := ""
	var scaffold []string // directories that exist only because of the destination shape
	base := path.Base(src)
	land := ""
	switch c.DstKind {
	case "root":
		dst, land = "/", ""
	case "new":
		dst, land = "new", "new"
	case "nested":
		dst, land = "x/y/new", "x/y/new"
		scaffold = []string{"x", "x/y"}
	case "existingdir":
		if err := os.Mkdir(filepath.Join(dstRoot, "existing"), 0o750); err != nil {
			return h.Infra(err)
		}
		if c.DstSetgid {
			if err := os.Chown(filepath.Join(dstRoot, "existing"), 0, 4242); err != nil {
				return h.Infra(err)
			}
			if err := os.Chmod(filepath.Join(dstRoot, "existing"), 0o770|os.ModeSetgid); err != nil {
				return h.Infra(err)
			}
		}
		dst, land = "existing", "existing/"+base
		scaffold = []string{"existing"}
	}
	var notes []string
	var mu sync.Mutex
	t0 := time.Now()
	cerr := fscopy.Copy(context.Background(), srcRoot, src, dstRoot, dst, c13Opts(c, &notes, &mu)...)
	if effective == "\x00unresolvable" {
		// copying through a dangling or looping link: an error is the only sane outcome
		if cerr == nil {
			return fmt.Errorf("Copy of %q with follow-links succeeded although the link does not resolve inside the source root", c.SrcPath)
		}
		return nil
	}
	if cerr != nil {
		return fmt.Errorf("Copy(src=%q dst=%q what=%s follow=%v) failed: %v", src, dst, c.What, c.Follow, cerr)
	}
	after, err := h.Snapshot(dstRoot)
	if err != nil {
		return h.Infra(err)
	}
	// source entries below `effective`, mapped to their landing place
	want := h.Snap{}
	srcOf := map[string]string{}
	paths := srcSnap.Paths()
	if effective == "" {
		paths = append([]string{"."}, paths...) // the source root itself is the copied directory
	}
	for _, sp := range paths {
		var rel string
		switch {
		case sp == ".":
			rel = ""
		case effective == "":
			rel = sp
		case sp == effective:
			rel = ""
		case strings.HasPrefix(sp, effective+"/"):
			rel = sp[len(effective)+1:]
		default:
			continue
		}
		dp := land
		if rel != "" {
			if land == "" {
				dp = rel
			} else {
				dp = land + "/" + rel
			}
		}
		if dp == "" {
			continue // the destination root itself
		}
		e, err := c13Expect(c, srcSnap[sp])
		if err != nil {
			return h.Infra(err)
		}
		want[dp] = e
		srcOf[dp] = sp
	}
	isScaffold := map[string]bool{}
	for _, s := range scaffold {
		isScaffold[s] = true
	}
	optsOn := c.Chown != nil || c.OctMode != nil || c.SymMode != "" || c.Utime != nil
	feats := c.Tree.Features()
	if optsOn {
		env.Class("options")
		env.NonTrivial()
	}
	for _, f := range feats {
		if f == "hardlink" || f == "special" || f == "specialbits" {
			env.NonTrivial()
		}
	}
	env.Class("what-" + c.What)
	env.Class("dst-" + c.DstKind)
	errs := h.DiffSnap(after, want, h.CmpOpt{AllXattrs: true, AllDirMtime: true, AllDirXattrs: true, Ignore: func(p string) bool { return isScaffold[p] }})
	// hard-link partition inside the copied subtree
	gid := map[string]string{}
	for dp, sp := range srcOf {
		if s := srcSnap[sp]; s.Kind == h.KFile {
			gid[dp] = fmt.Sprintf("%d", s.Ino)
		}
	}
	if got, wantp := fmt.Sprint(partitionOf(after)), fmt.Sprint(expectedPartition(gid)); got != wantp {
		errs.Addf("hard-link partition %s want %s", got, wantp)
	}
	if errs.Len() > 0 {
		return fmt.Errorf("Copy(src=%q dst=%q what=%s follow=%v chown=%v oct=%v sym=%q utime=%v): %v", src, dst, c.What, c.Follow, c.Chown, octStr(c.OctMode), c.SymMode, c.Utime != nil, errs.Err())
	}
	// the destination root stands for the copied directory itself: it existed, so
	// it keeps its own mode and owner, but it takes the directory's timestamp
	if c.DstKind == "root" {
		sp := effective
		sfi, err := os.Lstat(filepath.Join(srcRoot, filepath.FromSlash(sp)))
		if err != nil {
			return h.Infra(err)
		}
		if sfi.IsDir() {
			dfi, err := os.Lstat(dstRoot)
			if err != nil {
				return h.Infra(err)
			}
			wantT := sfi.ModTime()
			if c.Utime != nil {
				wantT = time.Unix(0, *c.Utime)
			}
			env.Class("existing-destination-root-timestamp")
			if got := dfi.ModTime(); !got.Equal(wantT) {
				return fmt.Errorf("Copy(src=%q dst=%q what=%s utime=%v): the destination root has mtime %v, the copied directory %v", src, dst, c.What, c.Utime != nil, got.UTC(), wantT.UTC())
			}
		}
	}
	// directories the call had to create above the target
	if c.DstKind == "nested" {
		for _, s := range scaffold {
			e := after[s]
			if e == nil || e.Kind != h.KDir {
				return fmt.Errorf("parent %q was not created", s)
			}
			if c.Chown != nil && (e.Uid != uint32(c.Chown[0]) || e.Gid != uint32(c.Chown[1])) {
				return fmt.Errorf("created parent %q is owned by %d:%d, requested %d:%d", s, e.Uid, e.Gid, c.Chown[0], c.Chown[1])
			}
			if c.Utime != nil && e.Mtime != *c.Utime {
				return fmt.Errorf("created parent %q has mtime %d, requested %d", s, e.Mtime, *c.Utime)
			}
			if c.Utime == nil && e.Mtime < t0.Add(-time.Minute).UnixNano() {
				return fmt.Errorf("created parent %q has an old mtime %d", s, e.Mtime)
			}
		}
	}
	// notifier: exactly once per non-directory written, with its destination path
	if c.Notify {
		wantN := map[string]int{}
		for dp, e := range want {
			if e.Kind != h.KDir {
				wantN["/"+dp]++
			}
		}
		gotN := map[string]int{}
		for _, n := range notes {
			parts := strings.SplitN(n, ":", 3)
			if parts[2] == "true" {
				continue // directories: not constrained by the statement
			}
			if parts[0] != "add" {
				return fmt.Errorf("notifier called with kind %q for %q", parts[0], parts[1])
			}
			gotN[parts[1]]++
		}
		var diff []string
		for p, n := range wantN {
			if gotN[p] != n {
				diff = append(diff, fmt.Sprintf("%s: %d calls want %d", p, gotN[p], n))
			}
		}
		for p, n := range gotN {
			if wantN[p] == 0 {
				diff = append(diff, fmt.Sprintf("%s: %d calls for a path that was not written", p, n))
			}
		}
		sort.Strings(diff)
		if len(diff) > 0 {
			return fmt.Errorf("change notifier (src=%q dst=%q): %v", src, dst, diff)
		}
	}
	return nil
}

func octStr(m *int) string {
	if m == nil {
		return "-"
	}
	return fmt.Sprintf("%04o", *m)
}

func TestC13(t *testing.T) {
	r := h.NewRunner("C13")
	defer r.Finish(t)
	h.RunWith(t, r, "", genC13, c13Check)
	if t.Failed() {
		return
	}
	t.Run("unpriv", func(t *testing.T) {
		h.ScaleChecks(1, 40, func() { h.RunWith(t, r, "unpriv", genC13Unpriv, c13UnprivCheck) })
	})
}

// ---------------------------------------------------------------------------
// sub-run "unpriv": Copy runs as uid 1000 (chrooted sub-process, no capabilities)
// over a tree it owns. Where a source entry belongs to somebody else, or another
// owner is requested, the process cannot comply: the call may fail, but when it
// reports success every copied entry and every directory it had to create carries
// the owner the statement promises.

type c13UnprivCase struct {
	Tree   *h.Tree `json:"tree"`
	Chown  []int   `json:"chown,omitempty"`
	DstArg string  `json:"dstarg"`
}

func genC13Unpriv(t *rapid.T) *c13UnprivCase {
	c := &c13UnprivCase{Tree: h.GenTree(t, c01UnprivCfg, "t")}
	unprivNormalize(c.Tree)
	switch rapid.IntRange(0, 3).Draw(t, "who") {
	case 0:
		c.Chown = rapid.SampledFrom([][]int{{1234, 1000}, {1000, 1234}, {0, 0}, {1000, 1000}}).Draw(t, "chown")
	case 1:
		if len(c.Tree.Nodes) > 0 {
			n := &c.Tree.Nodes[rapid.IntRange(0, len(c.Tree.Nodes)-1).Draw(t, "foreignnode")]
			own := rapid.SampledFrom([][2]uint32{{0, 0}, {1234, 1000}, {1000, 1234}}).Draw(t, "foreignowner")
			if n.LinkTo == "" {
				n.Uid, n.Gid = own[0], own[1]
				n.Perm |= 0o005
				for i := range c.Tree.Nodes {
					if m := &c.Tree.Nodes[i]; m.LinkTo == n.Path {
						m.Uid, m.Gid, m.Perm = n.Uid, n.Gid, n.Perm
					}
				}
			}
			c.Tree.Normalize()
		}
	}
	c.DstArg = rapid.SampledFrom([]string{"/", "new", "x/y/new"}).Draw(t, "dst")
	return c
}

func c13UnprivCheck(env *h.Env, c *c13UnprivCase) error {
	jail := filepath.Join(env.Scratch, "jail")
	for _, d := range []string{"src", "dst"} {
		if err := os.MkdirAll(filepath.Join(jail, d), 0o755); err != nil {
			return h.Infra(err)
		}
	}
	if err := h.Materialise(c.Tree, filepath.Join(jail, "src")); err != nil {
		return h.Infra(err)
	}
	for _, d := range []string{"src", "dst"} {
		if err := os.Chown(filepath.Join(jail, d), 1000, 1000); err != nil {
			return h.Infra(err)
		}
	}
	os.Chmod(jail, 0o755)
	os.Chmod(env.Scratch, 0o755)
	srcSnap, err := h.Snapshot(filepath.Join(jail, "src"))
	if err != nil {
		return h.Infra(err)
	}
	var res c14JailResult
	if err := runJailed(jail, "copy", 1000, c14JailArg{SrcArg: "/", DstArg: c.DstArg, Chown: c.Chown}, &res); err != nil {
		var crash *helperCrash
		if errors.As(err, &crash) {
			return fmt.Errorf("unprivileged Copy: the copying %v", crash)
		}
		return h.Infra(err)
	}
	env.Class("unprivileged-copy")
	foreign := c.Chown != nil && (c.Chown[0] != 1000 || c.Chown[1] != 1000)
	for _, e := range srcSnap {
		if e.Uid != 1000 || e.Gid != 1000 {
			foreign = true
		}
	}
	what := fmt.Sprintf("Copy as uid 1000 (src=\"/\" dst=%q chown=%v)", c.DstArg, c.Chown)
	if res.Err != "" {
		// (an unprivileged copy may fail for reasons of its own - a read-only file with
		// user.* attributes, say; the statement does not quantify over privileges, so
		// only what a *successful* call leaves behind is judged here)
		env.Class("rejected")
		return nil
	}
	if foreign {
		env.Class("owner-the-process-cannot-give")
		env.NonTrivial()
	}
	after, err := h.Snapshot(filepath.Join(jail, "dst"))
	if err != nil {
		return h.Infra(err)
	}
	land := strings.Trim(c.DstArg, "/")
	for sp, se := range srcSnap {
		dp := sp
		if sp == "." {
			if land == "" {
				continue // the existing destination root keeps its owner
			}
			dp = land
		} else if land != "" {
			dp = land + "/" + sp
		}
		a := after[dp]
		if a == nil {
			return fmt.Errorf("%s succeeded but %q is missing", what, dp)
		}
		wu, wg := se.Uid, se.Gid
		if c.Chown != nil {
			wu, wg = uint32(c.Chown[0]), uint32(c.Chown[1])
		}
		if a.Uid != wu || a.Gid != wg {
			return fmt.Errorf("%s succeeded but %q is owned by %d:%d, not %d:%d", what, dp, a.Uid, a.Gid, wu, wg)
		}
	}
	if c.Chown != nil && land != "" {
		// directories the call had to create above the target get the requested owner
		for cur := path.Dir(land); cur != "." && cur != ""; cur = path.Dir(cur) {
			if a := after[cur]; a != nil && (a.Uid != uint32(c.Chown[0]) || a.Gid != uint32(c.Chown[1])) {
				return fmt.Errorf("%s succeeded but the created parent %q is owned by %d:%d", what, cur, a.Uid, a.Gid)
			}
		}
	}
	return nil
}
