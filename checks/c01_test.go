package checks

import (
	"encoding/json"
	"fmt"
	"os"
	"path"
	"path/filepath"
	"sort"
	"strings"
	"testing"

	"github.com/tonistiigi/fsutil"
	"github.com/tonistiigi/fsutil/types"
	"pgregory.net/rapid"

	h "verif/harness"
)

// ---------------------------------------------------------------------------
// C01: after a successful transfer dest equals the source view

type c01Case struct {
	Src         *h.Tree `json:"src"`
	Dst         *h.Tree `json:"dst"` // prior destination (nil = fresh)
	Merge       bool    `json:"merge"`
	MemSrc      bool    `json:"memsrc"`
	MemLinkFull bool    `json:"memlinkfull"` // synthetic source announces full size for link members
	DiffNone    bool    `json:"diffnone"`
	Notify      bool    `json:"notify"`
	Filter      int     `json:"filter"`              // 0 none, 1 rewrite owner to 0:0, 2 rewrite to 1000:1001, 3 shift both ids by 100000
	ReadStyle   int     `json:"readstyle,omitempty"` // how the synthetic source's files hand out bytes (MemFS.ReadStyle)
	Capacity    int     `json:"capacity"`
	// AbortAt > 0: the prior destination additionally holds the leftovers of an
	// aborted run - a transfer of the same source whose stream broke when the
	// receiver had taken that many packets
	AbortAt int `json:"abort_at,omitempty"`
	// CrossFS: the destination lies on another file system than the source and
	// the process's temporary directory
	CrossFS bool `json:"crossfs,omitempty"`
}

var c01TreeCfg = h.TreeCfg{
	MaxEntries: 12, MaxDepth: 3, Names: []string{"a", "b", "ab", "a-b", "a.b", "c", "a0", "d", ".tmp.123456", "é", "a b", "x", listingName},
	Xattrs: true, XattrNS: []string{"user.", "trusted.", "security."}, Hardlinks: true, SpecialLinks: true, BigFiles: true, Caps: true, BigXattrs: true, BadUTF8: true,
	SymTargets: []string{"a", "b", "../a", "/a", "/nonexistent/x", "a/b", ".", "dangling", "../../../etc"}, UncleanTargets: true,
}

func genC01(t *rapid.T) *c01Case {
	c := &c01Case{}
	cfg := c01TreeCfg
	if rapid.IntRange(0, 9).Draw(t, "bigtree") == 0 {
		cfg.MaxEntries = 40
	}
	c.Src = h.GenTree(t, cfg, "src")
	switch rapid.IntRange(0, 4).Draw(t, "dstmode") {
	case 0:
	case 1, 2:
		c.Dst = h.GenTree(t, cfg, "dst")
	default:
		d := c.Src
		n := rapid.IntRange(1, 5).Draw(t, "nedits")
		for i := 0; i < n; i++ {
			d, _ = h.GenEdit(t, d, fmt.Sprintf("e%d", i), cfg.Names)
		}
		c.Dst = d
	}
	c.Merge = rapid.IntRange(0, 3).Draw(t, "merge") == 0
	c.MemSrc = rapid.Bool().Draw(t, "memsrc")
	c.MemLinkFull = rapid.Bool().Draw(t, "memlinkfull")
	c.ReadStyle = rapid.IntRange(0, 3).Draw(t, "readstyle")
	c.DiffNone = rapid.IntRange(0, 3).Draw(t, "diffnone") == 0
	c.Notify = rapid.Bool().Draw(t, "notify")
	c.Filter = rapid.SampledFrom([]int{0, 0, 1, 2, 3}).Draw(t, "filter")
	c.Capacity = rapid.SampledFrom([]int{0, 1, 8, 64}).Draw(t, "cap")
	if !c.Merge && rapid.IntRange(0, 3).Draw(t, "aborted") == 0 {
		c.AbortAt = rapid.IntRange(1, 2*len(c.Src.Nodes)+6).Draw(t, "abortat")
	}
	// identity-based differencing presupposes that equal identity means equal bytes
	h.AlignIdenticalBy(c.Src, c.Dst, func(u, g uint32) (uint32, uint32) { return ownerRewrite(c.Filter, u, g) })
	c.CrossFS = rapid.IntRange(0, 9).Draw(t, "crossfs") == 0 && smallXattrs(c.Src) && smallXattrs(c.Dst)
	return c
}

// ownerRewrite is what receiver filter `mode` does to an owner: 1 and 2 set a
// constant, 3 shifts both ids as an id-mapping receiver does (applying it
// twice is not the same as applying it once).
func ownerRewrite(mode int, uid, gid uint32) (uint32, uint32) {
	switch mode {
	case 1:
		return 0, 0
	case 2:
		return 1000, 1001
	case 3:
		return uid + 100000, gid + 100000
	}
	return uid, gid
}

func ownerFilter(mode int) fsutil.FilterFunc {
	if mode == 0 {
		return nil
	}
	return func(p string, st *types.Stat) bool { st.Uid, st.Gid = ownerRewrite(mode, st.Uid, st.Gid); return true }
}

// partition compares hard-link partitions: files grouped by (dev,inode) in the
// snapshot against an expected group id per path.
func partitionOf(s h.Snap) [][]string {
	g := map[[2]uint64][]string{}
	for _, p := range s.Paths() {
		e := s[p]
		if e.Kind == h.KFile {
			k := [2]uint64{e.Dev, e.Ino}
			g[k] = append(g[k], p)
		}
	}
	return normPartition(g)
}

// partitionOfAll: the same over regular and special files (everything but
// directories and symlinks).
func partitionOfAll(s h.Snap) [][]string {
	g := map[[2]uint64][]string{}
	for _, p := range s.Paths() {
		e := s[p]
		if e.Kind != h.KDir && e.Kind != h.KSymlink {
			k := [2]uint64{e.Dev, e.Ino}
			g[k] = append(g[k], p)
		}
	}
	return normPartition(g)
}

func normPartition[K comparable](g map[K][]string) [][]string {
	var out [][]string
	for _, v := range g {
		sort.Strings(v)
		out = append(out, v)
	}
	sort.Slice(out, func(i, j int) bool { return out[i][0] < out[j][0] })
	return out
}

func expectedPartition(gid map[string]string) [][]string {
	g := map[string][]string{}
	for p, id := range gid {
		g[id] = append(g[id], p)
	}
	return normPartition(g)
}

// syncSetup materialises the case's trees and returns the source FS.
func syncSetup(env *h.Env, src, dst *h.Tree, memSrc, memLinkFull bool) (fsutil.FS, string, error) {
	srcDir := filepath.Join(env.Scratch, "src")
	dstDir := filepath.Join(env.Scratch, "dst")
	if env.DstOtherFS {
		if other := h.OtherFSDir(env.Scratch); other != "" {
			env.Defer(func() { h.RemoveAllForce(other) })
			dstDir = filepath.Join(other, "dst")
			env.Class("destination-on-another-filesystem")
		}
	}
	if err := os.Mkdir(dstDir, 0o755); err != nil {
		return nil, "", h.Infra(err)
	}
	if dst != nil {
		if err := h.Materialise(dst, dstDir); err != nil {
			return nil, "", h.Infra(err)
		}
	}
	var f fsutil.FS
	if memSrc {
		f = &h.MemFS{T: src, LinkSizeFull: memLinkFull}
	} else {
		if err := os.Mkdir(srcDir, 0o755); err != nil {
			return nil, "", h.Infra(err)
		}
		if err := h.Materialise(src, srcDir); err != nil {
			return nil, "", h.Infra(err)
		}
		var err error
		if f, err = fsutil.NewFS(srcDir); err != nil {
			return nil, "", h.Infra(err)
		}
	}
	return f, dstDir, nil
}

// convergenceErrs is C01's oracle: after a successful non-merge transfer of
// the model tree src into a destination whose earlier state was `before`.
func convergenceErrs(after, before h.Snap, src *h.Tree, filter int, keepOld ...func(string) bool) *h.Errs {
	want := h.ExpectedSnap(src)
	if len(keepOld) > 0 {
		// identity-based differencing: a file whose identity did not change keeps
		// the bytes it had, and members of its link group share them
		for p, e := range want {
			if b := before[p]; e.Kind == h.KFile && b != nil && keepOld[0](p) {
				e.Sha, e.Size = b.Sha, b.Size
			}
		}
		for _, n := range src.Nodes {
			if n.Kind == h.KFile && n.LinkTo != "" {
				want[n.Path].Sha, want[n.Path].Size = want[n.LinkTo].Sha, want[n.LinkTo].Size
			}
		}
	}
	for _, e := range want {
		e.Uid, e.Gid = ownerRewrite(filter, e.Uid, e.Gid)
	}
	newInode := func(p string) bool {
		b, ok := before[p]
		a := after[p]
		return !ok || a == nil || b.Ino != a.Ino || b.Kind != a.Kind
	}
	// xattrs are promised for regular files and directories the transfer created
	// a name the transfer created for an inode that was there before (a new hard link
	// to a kept file) must carry the source's attributes; what else the old inode
	// carried is not judged
	oldInode := map[[2]uint64]bool{}
	for _, b := range before {
		oldInode[[2]uint64{b.Dev, b.Ino}] = true
	}
	keptInode := func(p string) bool {
		a := after[p]
		return a != nil && oldInode[[2]uint64{a.Dev, a.Ino}]
	}
	errs := h.DiffSnap(after, want, h.CmpOpt{DirMtime: newInode, DirXattrs: newInode, FileXattrs: newInode, ExtraXattrsOK: keptInode})
	gid := map[string]string{}
	for p, f := range h.ExpectedGroupsAll(src) {
		gid[p] = f
	}
	if got, wantp := fmt.Sprint(partitionOfAll(after)), fmt.Sprint(expectedPartition(gid)); got != wantp {
		errs.Addf("hard-link partition %s want %s", got, wantp)
	}
	for _, p := range after.Paths() {
		base := filepath.Base(p)
		if strings.HasPrefix(base, ".tmp.") {
			if _, ok := want[p]; !ok {
				errs.Addf("temporary name %q left behind", p)
			}
		}
	}
	return errs
}

func c01Check(env *h.Env, c *c01Case) error {
	env.DstOtherFS = c.CrossFS
	f, dstDir, err := syncSetup(env, c.Src, c.Dst, c.MemSrc, c.MemLinkFull)
	if err != nil {
		return err
	}
	if m, ok := f.(*h.MemFS); ok {
		m.ReadStyle = c.ReadStyle
		if c.ReadStyle != 0 {
			env.Class(fmt.Sprintf("readstyle-%d", c.ReadStyle))
		}
	}
	opt := fsutil.ReceiveOpt{Merge: c.Merge, Filter: ownerFilter(c.Filter)}
	if c.DiffNone {
		opt.Differ = fsutil.DiffNone
	}
	var nl h.NotifyLog
	if c.Notify {
		opt.NotifyHashed = nl.Fn
		opt.ContentHasher = h.Hasher
	}
	if c.AbortAt > 0 {
		// (its own log: writer goroutines of the aborted call may still report for a moment)
		nlAbort := &h.NotifyLog{}
		if c.Notify {
			opt.NotifyHashed = nlAbort.Fn
		}
		// leftovers of an aborted run of the same transfer
		ar := h.RunSync(f, dstDir, h.SyncOpt{Capacity: c.Capacity, Recv: opt, Setup: func(p *h.Pair) {
			p.R.BeforeRecv = func(n int) error {
				if n >= c.AbortAt {
					p.S.Break(errInjected)
					p.R.Break(errInjected)
					return errInjected
				}
				return nil
			}
		}})
		if ar.Stuck != "" {
			env.Class("stuck")
			return nil
		}
		if ar.SendErr != nil || ar.RecvErr != nil {
			env.Class("after-aborted-run")
			env.NonTrivial()
		}
		if c.Notify {
			opt.NotifyHashed = nl.Fn
		}
	}
	before, err := h.Snapshot(dstDir)
	if err != nil {
		return h.Infra(err)
	}
	res := h.RunSync(f, dstDir, h.SyncOpt{Capacity: c.Capacity, Recv: opt})
	if res.Stuck != "" {
		env.Class("stuck")
		return nil // termination is C04's clause; C01 speaks about successful pairs only
	}
	if res.SendErr != nil || res.RecvErr != nil {
		env.Class("rejected")
		env.Note("send_err", fmt.Sprint(res.SendErr))
		env.Note("recv_err", fmt.Sprint(res.RecvErr))
		return nil
	}
	after, err := h.Snapshot(dstDir)
	if err != nil {
		return h.Infra(err)
	}
	feats := c.Src.Features()
	for _, ft := range feats {
		env.Class("src-" + ft)
	}
	if c.Dst != nil && len(c.Dst.Nodes) > 0 {
		env.Class("dirty-dest")
		env.NonTrivial()
	}
	if c.Merge {
		env.Class("merge")
	}
	if c.MemSrc {
		env.Class("memfs-source")
	}
	for _, ft := range feats {
		switch ft {
		case "multichunk", "hardlink", "special", "specialbits", "xattr", "ordersensitive":
			env.NonTrivial()
		}
	}
	var errs *h.Errs
	if !c.Merge {
		errs = convergenceErrs(after, before, c.Src, c.Filter)
	} else {
		errs = mergeErrs(after, before, c.Src, c.Dst, c.Filter)
	}
	if errs.Len() > 0 {
		return fmt.Errorf("destination differs from the source view (merge=%v memsrc=%v differ-none=%v filter=%d): %v", c.Merge, c.MemSrc, c.DiffNone, c.Filter, errs.Err())
	}
	return nil
}

// mergeErrs: the result is the overlay of the source over the old destination;
// nothing is deleted that the source does not replace.
func mergeErrs(after, before h.Snap, src, dst *h.Tree, filter int) *h.Errs {
	if dst == nil {
		dst = &h.Tree{}
	}
	_, survive := h.Overlay(dst, src)
	wantSrc := h.ExpectedSnap(src)
	for _, e := range wantSrc {
		e.Uid, e.Gid = ownerRewrite(filter, e.Uid, e.Gid)
	}
	var errs h.Errs
	want := h.Snap{}
	for p, e := range wantSrc {
		want[p] = e
	}
	for p := range survive {
		want[p] = before[p]
	}
	newInode := func(p string) bool {
		b, ok := before[p]
		a := after[p]
		return !ok || a == nil || b.Ino != a.Ino || b.Kind != a.Kind
	}
	d := h.DiffSnap(after, want, h.CmpOpt{
		DirMtime:   func(p string) bool { return !survive[p] && newInode(p) },
		DirXattrs:  func(p string) bool { return !survive[p] && newInode(p) },
		FileXattrs: func(p string) bool { return survive[p] || newInode(p) },
		// survivors are compared separately (byte- and inode-identical)
		Ignore: func(p string) bool { return false },
	})
	for _, m := range d.List() {
		// a surviving directory's mtime legitimately changes when entries are added to it
		errs.Addf("%s", m)
	}
	for p := range survive {
		b, a := before[p], after[p]
		if a == nil {
			continue
		}
		if b.Kind == h.KDir {
			if a.Ino != b.Ino {
				errs.Addf("merge: surviving directory %q was re-created", p)
			}
			continue
		}
		if !h.SameEntry(a, b, false) {
			errs.Addf("merge: old entry %q that the source does not replace was modified", p)
		}
	}
	gid := map[string]string{}
	for p, f := range h.ExpectedGroupsAll(src) {
		gid[p] = "s:" + f
	}
	for p := range survive {
		if b := before[p]; b.Kind != h.KDir && b.Kind != h.KSymlink {
			gid[p] = fmt.Sprintf("d:%d", b.Ino)
		}
	}
	if got, wantp := fmt.Sprint(partitionOfAll(after)), fmt.Sprint(expectedPartition(gid)); got != wantp {
		errs.Addf("hard-link partition %s want %s", got, wantp)
	}
	return &errs
}

func TestC01(t *testing.T) {
	r := h.NewRunner("C01")
	defer r.Finish(t)
	h.RunWith(t, r, "", genC01, c01Check)
	if t.Failed() {
		return
	}
	t.Run("unpriv", func(t *testing.T) {
		h.ScaleChecks(1, 12, func() { h.RunWith(t, r, "unpriv", genC01UnprivForeign, c01UnprivCheck) })
	})
}

// ---------------------------------------------------------------------------
// unprivileged receiver with read-only files (both ends run as uid 1000 in a
// chrooted sub-process; the parent observes as root)

type c01UnprivCase struct {
	Src      *h.Tree `json:"src"`
	Dst      *h.Tree `json:"dst"`
	DiffNone bool    `json:"diffnone"`
	Notify   bool    `json:"notify"`
	Capacity int     `json:"capacity"`
	Foreign  bool    `json:"foreign,omitempty"` // a source entry is owned by another uid or gid
}

var c01UnprivCfg = h.TreeCfg{
	MaxEntries: 10, MaxDepth: 3, Names: []string{"a", "b", "ab", "a-b", "c", "d", "ro"},
	Kinds:  []h.Kind{h.KFile, h.KFile, h.KFile, h.KSymlink, h.KFifo},
	Xattrs: true, XattrNS: []string{"user."}, Hardlinks: true, BigFiles: true,
	Uids:       []uint32{1000},
	SymTargets: []string{"a", "../b", "dangling", "/a"},
}

func unprivNormalize(t *h.Tree) {
	if t == nil {
		return
	}
	parent := map[string]bool{}
	for _, n := range t.Nodes {
		parent[path.Dir(n.Path)] = true
	}
	for i := range t.Nodes {
		n := &t.Nodes[i]
		n.Uid, n.Gid = 1000, 1000
		switch n.Kind {
		case h.KDir:
			if parent[n.Path] {
				n.Perm |= 0o700 // an unprivileged transfer cannot work inside a directory it cannot write
			} else {
				n.Perm |= 0o500 // an empty one only has to be listed
			}
			n.Perm &^= 0o7000
		case h.KFile:
			n.Perm |= 0o400 // the sender must be able to read it
		}
	}
	t.Normalize()
}

func genC01Unpriv(t *rapid.T) *c01UnprivCase {
	c := &c01UnprivCase{Src: h.GenTree(t, c01UnprivCfg, "src")}
	// read-only and set-id files are the point of this configuration
	for i := range c.Src.Nodes {
		if n := &c.Src.Nodes[i]; n.Kind == h.KFile && rapid.IntRange(0, 2).Draw(t, fmt.Sprintf("ro%d", i)) == 0 {
			n.Perm = rapid.SampledFrom([]uint32{0o444, 0o400, 0o4555, 0o2555, 0o6755, 0o4755, 0o555}).Draw(t, fmt.Sprintf("roperm%d", i))
		} else if n.Kind == h.KDir && rapid.IntRange(0, 2).Draw(t, fmt.Sprintf("rod%d", i)) == 0 {
			// read-only directories (kept only where the directory stays empty)
			n.Perm = rapid.SampledFrom([]uint32{0o555, 0o500, 0o550}).Draw(t, fmt.Sprintf("rodperm%d", i))
		}
	}
	switch rapid.IntRange(0, 2).Draw(t, "dstmode") {
	case 1:
		c.Dst = h.GenTree(t, c01UnprivCfg, "dst")
	case 2:
		d := c.Src
		for i := 0; i < rapid.IntRange(1, 4).Draw(t, "nedits"); i++ {
			d, _ = h.GenEdit(t, d, fmt.Sprintf("e%d", i), c01UnprivCfg.Names)
		}
		c.Dst = d
	}
	unprivNormalize(c.Src)
	unprivNormalize(c.Dst)
	if c.Dst != nil {
		// emptying an old directory needs write permission on it as well, and the
		// receiver gives a directory its new mode before it gets to the old children
		old := map[string]bool{}
		for _, n := range c.Dst.Nodes {
			old[path.Dir(n.Path)] = true
		}
		for i := range c.Src.Nodes {
			if n := &c.Src.Nodes[i]; n.Kind == h.KDir && old[n.Path] {
				n.Perm |= 0o700
			}
		}
		c.Src.Normalize()
	}
	h.AlignIdentical(c.Src, c.Dst, false, 0, 0)
	c.DiffNone = rapid.IntRange(0, 3).Draw(t, "diffnone") == 0
	c.Notify = rapid.Bool().Draw(t, "notify")
	c.Capacity = rapid.SampledFrom([]int{0, 8, 64}).Draw(t, "cap")
	return c
}

type c01JailArg struct {
	DiffNone bool `json:"diffnone"`
	Notify   bool `json:"notify"`
	Capacity int  `json:"capacity"`
}

type c01JailResult struct {
	SendErr string `json:"senderr"`
	RecvErr string `json:"recverr"`
	Stuck   bool   `json:"stuck"`
	Uid     int    `json:"uid"`
}

// jailSync runs inside the chroot as the unprivileged user.
func jailSync(raw json.RawMessage) (any, error) {
	var a c01JailArg
	if err := json.Unmarshal(raw, &a); err != nil {
		return nil, err
	}
	f, err := fsutil.NewFS("/src")
	if err != nil {
		return nil, err
	}
	opt := fsutil.ReceiveOpt{}
	if a.DiffNone {
		opt.Differ = fsutil.DiffNone
	}
	var nl h.NotifyLog
	if a.Notify {
		opt.NotifyHashed = nl.Fn
		opt.ContentHasher = h.Hasher
	}
	res := h.RunSync(f, "/dst", h.SyncOpt{Capacity: a.Capacity, Recv: opt})
	out := &c01JailResult{Stuck: res.Stuck != "", Uid: os.Getuid()}
	if res.SendErr != nil {
		out.SendErr = res.SendErr.Error()
	}
	if res.RecvErr != nil {
		out.RecvErr = res.RecvErr.Error()
	}
	return out, nil
}

// genC01UnprivForeign: one case in six has a source entry that belongs to somebody
// else (or to a group the receiver is not in). An unprivileged receiver cannot
// reproduce that: the transfer may fail, but it must not report success.
func genC01UnprivForeign(t *rapid.T) *c01UnprivCase {
	c := genC01Unpriv(t)
	if len(c.Src.Nodes) > 0 && rapid.IntRange(0, 5).Draw(t, "foreign") == 0 {
		n := &c.Src.Nodes[rapid.IntRange(0, len(c.Src.Nodes)-1).Draw(t, "foreignnode")]
		own := rapid.SampledFrom([][2]uint32{{0, 0}, {1234, 1000}, {1000, 1234}, {1000, 0}}).Draw(t, "foreignowner")
		if n.Kind == h.KDir {
			n.Perm |= 0o007 // the sender (uid 1000) must still be able to list it
		} else if n.Kind == h.KFile {
			n.Perm |= 0o004
		}
		n.Uid, n.Gid = own[0], own[1]
		// every name of a link group shares the owner
		for i := range c.Src.Nodes {
			if m := &c.Src.Nodes[i]; m.LinkTo == n.Path || (n.LinkTo != "" && (m.Path == n.LinkTo || m.LinkTo == n.LinkTo)) {
				m.Uid, m.Gid, m.Perm = n.Uid, n.Gid, n.Perm
			}
		}
		c.Src.Normalize()
		c.Foreign = true
	}
	return c
}

func c01UnprivCheck(env *h.Env, c *c01UnprivCase) error {
	jail := filepath.Join(env.Scratch, "jail")
	for _, d := range []string{"src", "dst"} {
		p := filepath.Join(jail, d)
		if err := os.MkdirAll(p, 0o755); err != nil {
			return h.Infra(err)
		}
	}
	if err := h.Materialise(c.Src, filepath.Join(jail, "src")); err != nil {
		return h.Infra(err)
	}
	if c.Dst != nil {
		if err := h.Materialise(c.Dst, filepath.Join(jail, "dst")); err != nil {
			return h.Infra(err)
		}
	}
	for _, d := range []string{"src", "dst"} {
		if err := os.Chown(filepath.Join(jail, d), 1000, 1000); err != nil {
			return h.Infra(err)
		}
	}
	os.Chmod(jail, 0o755)
	os.Chmod(env.Scratch, 0o755)
	before, err := h.Snapshot(filepath.Join(jail, "dst"))
	if err != nil {
		return h.Infra(err)
	}
	var res c01JailResult
	if err := runJailed(jail, "sync", 1000, c01JailArg{DiffNone: c.DiffNone, Notify: c.Notify, Capacity: c.Capacity}, &res); err != nil {
		return h.Infra(err)
	}
	if res.Uid != 1000 {
		return h.Infra(fmt.Errorf("helper ran as uid %d", res.Uid))
	}
	env.Class("unprivileged-receiver")
	if res.Stuck {
		env.Class("stuck")
		return nil
	}
	if c.Foreign {
		env.Class("entry-owned-by-somebody-else")
		env.NonTrivial()
	}
	if res.SendErr != "" || res.RecvErr != "" {
		env.Class("rejected")
		env.Note("send_err", res.SendErr)
		env.Note("recv_err", res.RecvErr)
		return nil
	}
	after, err := h.Snapshot(filepath.Join(jail, "dst"))
	if err != nil {
		return h.Infra(err)
	}
	ro, setid := false, false
	for _, n := range c.Src.Nodes {
		if n.Kind == h.KFile && n.Perm&0o222 == 0 {
			ro = true
		}
		if n.Kind == h.KFile && n.Perm&0o6000 != 0 && n.Size > 0 {
			setid = true
		}
	}
	if ro {
		env.Class("read-only-file")
		env.NonTrivial()
	}
	if setid {
		env.Class("set-id-file-with-content")
		env.NonTrivial()
	}
	if c.Dst != nil && len(c.Dst.Nodes) > 0 {
		env.NonTrivial()
	}
	if errs := convergenceErrs(after, before, c.Src, 0); errs.Len() > 0 {
		return fmt.Errorf("unprivileged receiver (uid 1000, differ-none=%v): destination differs from the source view: %v", c.DiffNone, errs.Err())
	}
	return nil
}
