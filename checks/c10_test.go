package checks

import (
	"context"
	"fmt"
	gofs "io/fs"
	"os"
	"path/filepath"
	"strings"
	"testing"

	"github.com/tonistiigi/fsutil"
	"github.com/tonistiigi/fsutil/types"
	"pgregory.net/rapid"

	h "verif/harness"
)

// ---------------------------------------------------------------------------
// C10: filtered walk equals the unpruned reference filter

type c10MapRule struct {
	Res     int  `json:"res"` // 0 keep, 1 exclude, 2 skipdir
	Rewrite bool `json:"rewrite"`
}

type c10Case struct {
	Tree    *h.Tree               `json:"tree"`
	Include []string              `json:"include"`
	Exclude []string              `json:"exclude"`
	Map     map[string]c10MapRule `json:"map"`    // nil = no map function
	CbSkip  []string              `json:"cbskip"` // callback returns SkipDir for these paths
}

var c10TreeCfg = h.TreeCfg{
	MaxEntries: 14, MaxDepth: 4,
	Names: []string{"a", "b", "c", "ab", "a-b", "a.b", "a0", "d", "x", "foo", "[x]", "x*", "q?", "é", "!x", ".a"},
	Kinds: []h.Kind{h.KFile, h.KFile, h.KFile, h.KSymlink, h.KFifo},
}

func genC10(t *rapid.T) *c10Case {
	c := &c10Case{Tree: h.GenTree(t, c10TreeCfg, "t")}
	c.Include = h.GenPatterns(t, c.Tree, "inc", 3)
	c.Exclude = h.GenPatterns(t, c.Tree, "exc", 3)
	if rapid.IntRange(0, 2).Draw(t, "hasmap") == 0 && len(c.Tree.Nodes) > 0 {
		c.Map = map[string]c10MapRule{}
		k := rapid.IntRange(0, 4).Draw(t, "nmap")
		for i := 0; i < k; i++ {
			p := c.Tree.Nodes[rapid.IntRange(0, len(c.Tree.Nodes)-1).Draw(t, fmt.Sprintf("mapnode%d", i))].Path
			c.Map[p] = c10MapRule{Res: rapid.SampledFrom([]int{0, 1, 1, 2}).Draw(t, fmt.Sprintf("mapres%d", i)), Rewrite: rapid.Bool().Draw(t, fmt.Sprintf("maprw%d", i))}
		}
	}
	if rapid.IntRange(0, 5).Draw(t, "hascb") == 0 && len(c.Tree.Nodes) > 0 {
		c.CbSkip = []string{c.Tree.Nodes[rapid.IntRange(0, len(c.Tree.Nodes)-1).Draw(t, "cbnode")].Path}
	}
	return c
}

func rewriteStat(st *types.Stat) {
	st.Uid, st.Gid = 4242, 4343
	st.Mode = (st.Mode &^ 0o777) | 0o741
	st.ModTime = 123456789
}

type c10Outcome struct {
	got   []walked
	calls []string // "map:<p>" / "fn:<p>"
	err   error
}

func c10RunReal(src string, c *c10Case) c10Outcome {
	var out c10Outcome
	opt := &fsutil.FilterOpt{IncludePatterns: c.Include, ExcludePatterns: c.Exclude}
	if c.Map != nil {
		opt.Map = func(p string, st *types.Stat) fsutil.MapResult {
			out.calls = append(out.calls, "map:"+p)
			if st.Path != p {
				out.calls = append(out.calls, fmt.Sprintf("mapmismatch:%s:%s", p, st.Path))
			}
			r := c.Map[p]
			if r.Rewrite {
				rewriteStat(st)
			}
			return fsutil.MapResult(r.Res)
		}
	}
	cb := map[string]bool{}
	for _, p := range c.CbSkip {
		cb[p] = true
	}
	out.err = fsutil.WalkDir(context.Background(), src, opt, func(p string, e gofs.DirEntry, err error) error {
		if err != nil {
			return err
		}
		fi, err := e.Info()
		if err != nil {
			return err
		}
		out.calls = append(out.calls, "fn:"+p)
		out.got = append(out.got, walked{p, fi.Sys().(*types.Stat)})
		if cb[p] {
			return filepath.SkipDir
		}
		return nil
	})
	return out
}

func c10Reference(listing []h.FilterEntry, c *c10Case, chain bool) (*h.RefFilterResult, error) {
	mk := h.NewRefMatcher
	if chain {
		mk = h.NewChainMatcher
	}
	inc, err := mk(c.Include)
	if err != nil {
		return nil, err
	}
	exc, err := mk(c.Exclude)
	if err != nil {
		return nil, err
	}
	var mapFn func(string) h.MapRes
	if c.Map != nil {
		mapFn = func(p string) h.MapRes { return h.MapRes(c.Map[p].Res) }
	}
	cb := map[string]bool{}
	for _, p := range c.CbSkip {
		cb[p] = true
	}
	return h.RefFilter(listing, inc, exc, mapFn, func(p string) bool { return cb[p] })
}

func c10Check(env *h.Env, c *c10Case) error {
	src := filepath.Join(env.Scratch, "src")
	if err := os.Mkdir(src, 0o755); err != nil {
		return h.Infra(err)
	}
	if err := h.Materialise(c.Tree, src); err != nil {
		return h.Infra(err)
	}
	snap, err := h.Snapshot(src)
	if err != nil {
		return h.Infra(err)
	}
	full := expectWalk(snap, func(string) bool { return true })
	fullStat := map[string]*types.Stat{}
	var listing []h.FilterEntry
	for _, w := range full {
		fullStat[w.Path] = w.Stat
		listing = append(listing, h.FilterEntry{Path: w.Path, IsDir: w.Stat.IsDir()})
	}
	ref, rerr := c10Reference(listing, c, false)
	real := c10RunReal(src, c)
	if rerr != nil {
		env.Class("invalid-pattern")
		if real.err == nil {
			return fmt.Errorf("pattern list include=%q exclude=%q is invalid (%v) but the walk succeeded", c.Include, c.Exclude, rerr)
		}
		return nil
	}
	if real.err != nil {
		return fmt.Errorf("filtered walk failed: %v (include=%q exclude=%q)", real.err, c.Include, c.Exclude)
	}
	if ref.Pruneable > 0 {
		env.Class("prunable-dir")
		env.NonTrivial()
	}
	if ref.Lazy > 0 {
		env.Class("lazy-ancestor")
		env.NonTrivial()
	}
	if h.HasNegation(c.Include) || h.HasNegation(c.Exclude) {
		env.Class("negation")
		env.NonTrivial()
	}
	if c.Map != nil {
		env.Class("map")
	}
	if len(c.CbSkip) > 0 {
		env.Class("callback-skipdir")
	}
	if len(ref.Reported) == 0 {
		env.Class("empty-result")
	}
	env.Note("reported", len(ref.Reported))
	// structural clauses, always
	seen := map[string]bool{}
	mapped := map[string]bool{}
	for _, ev := range real.calls {
		switch {
		case strings.HasPrefix(ev, "mapmismatch:"):
			return fmt.Errorf("map function called with path that differs from stat.Path: %s", ev)
		case strings.HasPrefix(ev, "map:"):
			mapped[ev[4:]] = true
		case strings.HasPrefix(ev, "fn:"):
			p := ev[3:]
			if seen[p] {
				return fmt.Errorf("%q reported twice", p)
			}
			seen[p] = true
			if c.Map != nil && !mapped[p] {
				return fmt.Errorf("%q reported before the map function was consulted for it", p)
			}
		}
	}
	for i := 1; i < len(real.got); i++ {
		if h.CmpComponents(real.got[i-1].Path, real.got[i].Path) >= 0 {
			return fmt.Errorf("%q reported before %q (not walk order)", real.got[i-1].Path, real.got[i].Path)
		}
	}
	gotPaths := make([]string, len(real.got))
	for i, g := range real.got {
		gotPaths[i] = g.Path
	}
	if ref.Weak {
		// order of map calls for lazily emitted ancestors is not fixed by the
		// statement: only the structural clauses plus "nothing the filter or the
		// map function drops is reported" are checked
		env.Class("weak-lazy-skipdir")
		refNoMap, _ := c10Reference(listing, &c10Case{Tree: c.Tree, Include: c.Include, Exclude: c.Exclude}, false)
		allowed := map[string]bool{}
		for _, p := range refNoMap.Reported {
			allowed[p] = true
		}
		// the dependency's parent-results divergence shows here too: a path the
		// naive evaluation drops but the unpruned chain model reports
		chainAllowed := map[string]bool{}
		if chain, cerr := c10Reference(listing, &c10Case{Tree: c.Tree, Include: c.Include, Exclude: c.Exclude}, true); cerr == nil {
			for _, p := range chain.Reported {
				chainAllowed[p] = true
			}
		}
		var divergent []string
		for _, p := range gotPaths {
			if !allowed[p] {
				if chainAllowed[p] {
					divergent = append(divergent, p)
					continue
				}
				return fmt.Errorf("%q reported but neither selected nor an ancestor of a selected entry", p)
			}
			if c.Map != nil && c.Map[p].Res != 0 {
				return fmt.Errorf("%q reported although the map function dropped it", p)
			}
		}
		if len(divergent) > 0 {
			return env.Known("patternmatcher-parent-results-divergence",
				"include=%q exclude=%q (callback SkipDir on %q): walk reports %q which the naive reference drops; patternmatcher.MatchesUsingParentResults (threaded down the ancestor chain, no pruning) selects them too", c.Include, c.Exclude, c.CbSkip, divergent)
		}
		return nil
	}
	if strings.Join(gotPaths, "\x00") != strings.Join(ref.Reported, "\x00") {
		// is it the dependency's parent-results divergence?
		chain, cerr := c10Reference(listing, c, true)
		if cerr == nil && strings.Join(gotPaths, "\x00") == strings.Join(chain.Reported, "\x00") {
			return env.Known("patternmatcher-parent-results-divergence",
				"include=%q exclude=%q: walk reports %q, the naive reference %q; patternmatcher.MatchesUsingParentResults (threaded down the ancestor chain, no pruning) reproduces the walk's answer", c.Include, c.Exclude, gotPaths, ref.Reported)
		}
		return fmt.Errorf("include=%q exclude=%q map=%v cbskip=%v: walk reports %q, reference filter reports %q", c.Include, c.Exclude, c.Map, c.CbSkip, gotPaths, ref.Reported)
	}
	// stats: as the plain walk reports them, with the map function's rewrite
	for _, g := range real.got {
		want := fullStat[g.Path].Clone()
		if c.Map != nil && c.Map[g.Path].Rewrite {
			rewriteStat(want)
		}
		if err := cmpStat(g.Stat, want, false); err != nil {
			return fmt.Errorf("%q: %v", g.Path, err)
		}
	}
	return nil
}

func TestC10(t *testing.T) {
	h.Run(t, "C10", genC10, c10Check)
}
