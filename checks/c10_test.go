package checks

import (
	"context"
	"fmt"
	gofs "io/fs"
	"os"
	"path/filepath"
	"sort"
	"strings"
	"testing"

	"github.com/tonistiigi/fsutil"
	"github.com/tonistiigi/fsutil/types"
	"pgregory.net/rapid"

	h "verif/harness"
)

// ---------------------------------------------------------------------------
// C10: filtered walk equals the unpruned reference filter

type c10MapRule struct {
	Res     int  `json:"res"` // 0 keep, 1 exclude, 2 skipdir
	Rewrite bool `json:"rewrite"`
}

type c10Case struct {
	Tree    *h.Tree               `json:"tree"`
	Include []string              `json:"include"`
	Exclude []string              `json:"exclude"`
	Map     map[string]c10MapRule `json:"map"`    // nil = no map function
	CbSkip  []string              `json:"cbskip"` // callback returns SkipDir for these paths
	// EmptyLists: a pattern list without patterns is handed over as an empty,
	// non-nil slice (what a caller gets from JSON "[]" or from filtering a list down)
	EmptyLists bool `json:"emptylists,omitempty"`
}

// listArg is how a pattern list reaches the library: nil, or empty but non-nil.
func listArg(l []string, emptyNonNil bool) []string {
	if len(l) == 0 && emptyNonNil {
		return []string{}
	}
	return l
}

var c10TreeCfg = h.TreeCfg{
	MaxEntries: 14, MaxDepth: 4,
	Names: []string{"a", "b", "c", "ab", "a-b", "a.b", "a0", "d", "x", "foo", "[x]", "x*", "q?", "é", "!x", ".a"},
	Kinds: []h.Kind{h.KFile, h.KFile, h.KFile, h.KSymlink, h.KFifo},
}

func genC10(t *rapid.T) *c10Case {
	c := &c10Case{Tree: h.GenTree(t, c10TreeCfg, "t")}
	c.Include = h.GenPatterns(t, c.Tree, "inc", 3)
	c.Exclude = h.GenPatterns(t, c.Tree, "exc", 3)
	if rapid.IntRange(0, 2).Draw(t, "hasmap") == 0 && len(c.Tree.Nodes) > 0 {
		c.Map = map[string]c10MapRule{}
		k := rapid.IntRange(0, 4).Draw(t, "nmap")
		for i := 0; i < k; i++ {
			p := c.Tree.Nodes[rapid.IntRange(0, len(c.Tree.Nodes)-1).Draw(t, fmt.Sprintf("mapnode%d", i))].Path
			c.Map[p] = c10MapRule{Res: rapid.SampledFrom([]int{0, 1, 1, 2}).Draw(t, fmt.Sprintf("mapres%d", i)), Rewrite: rapid.Bool().Draw(t, fmt.Sprintf("maprw%d", i))}
		}
	}
	c.EmptyLists = rapid.IntRange(0, 2).Draw(t, "emptylists") == 0
	if rapid.IntRange(0, 5).Draw(t, "hascb") == 0 && len(c.Tree.Nodes) > 0 {
		c.CbSkip = []string{c.Tree.Nodes[rapid.IntRange(0, len(c.Tree.Nodes)-1).Draw(t, "cbnode")].Path}
	}
	return c
}

// rewriteStat is what the map function does to a stat it keeps. It is not
// idempotent on purpose: every call gets a stat of its own, so an entry that is
// consulted more than once still shows one application.
func rewriteStat(st *types.Stat) {
	st.Uid, st.Gid = st.Uid+4242, 4343
	st.Mode = (st.Mode &^ 0o777) | 0o741
	st.ModTime += 123456789
}

type c10Outcome struct {
	got   []walked
	calls []string // "map:<p>" / "fn:<p>"
	err   error
}

// c10Pristine, when set by the check, holds the stats of the plain walk: the map
// function must be handed exactly those (it is consulted on the entry's own stat,
// however often the walk comes back to an entry).
func c10RunReal(src string, c *c10Case, pristine ...map[string]*types.Stat) c10Outcome {
	var out c10Outcome
	opt := &fsutil.FilterOpt{IncludePatterns: listArg(c.Include, c.EmptyLists), ExcludePatterns: listArg(c.Exclude, c.EmptyLists)}
	if c.Map != nil {
		opt.Map = func(p string, st *types.Stat) fsutil.MapResult {
			out.calls = append(out.calls, "map:"+p)
			if st.Path != p {
				out.calls = append(out.calls, fmt.Sprintf("mapmismatch:%s:%s", p, st.Path))
			}
			if len(pristine) > 0 {
				if want := pristine[0][p]; want != nil && !st.EqualVT(want) {
					out.calls = append(out.calls, fmt.Sprintf("mapdirty:%s:%v", p, st))
				}
			}
			r := c.Map[p]
			if r.Rewrite {
				rewriteStat(st)
			}
			return fsutil.MapResult(r.Res)
		}
	}
	cb := map[string]bool{}
	for _, p := range c.CbSkip {
		cb[p] = true
	}
	out.err = fsutil.WalkDir(context.Background(), src, opt, func(p string, e gofs.DirEntry, err error) error {
		if err != nil {
			return err
		}
		fi, err := e.Info()
		if err != nil {
			return err
		}
		out.calls = append(out.calls, "fn:"+p)
		out.got = append(out.got, walked{p, fi.Sys().(*types.Stat)})
		if cb[p] {
			return filepath.SkipDir
		}
		return nil
	})
	return out
}

func c10Reference(listing []h.FilterEntry, c *c10Case, chain bool) (*h.RefFilterResult, error) {
	mk := h.NewRefMatcher
	if chain {
		mk = h.NewChainMatcher
	}
	inc, err := mk(c.Include)
	if err != nil {
		return nil, err
	}
	exc, err := mk(c.Exclude)
	if err != nil {
		return nil, err
	}
	var mapFn func(string) h.MapRes
	if c.Map != nil {
		mapFn = func(p string) h.MapRes { return h.MapRes(c.Map[p].Res) }
	}
	cb := map[string]bool{}
	for _, p := range c.CbSkip {
		cb[p] = true
	}
	return h.RefFilter(listing, inc, exc, mapFn, func(p string) bool { return cb[p] })
}

func c10Check(env *h.Env, c *c10Case) error {
	src := filepath.Join(env.Scratch, "src")
	if err := os.Mkdir(src, 0o755); err != nil {
		return h.Infra(err)
	}
	if err := h.Materialise(c.Tree, src); err != nil {
		return h.Infra(err)
	}
	snap, err := h.Snapshot(src)
	if err != nil {
		return h.Infra(err)
	}
	full := expectWalk(snap, func(string) bool { return true })
	fullStat := map[string]*types.Stat{}
	var listing []h.FilterEntry
	for _, w := range full {
		fullStat[w.Path] = w.Stat
		listing = append(listing, h.FilterEntry{Path: w.Path, IsDir: w.Stat.IsDir()})
	}
	ref, rerr := c10Reference(listing, c, false)
	real := c10RunReal(src, c, fullStat)
	if rerr != nil {
		env.Class("invalid-pattern")
		if real.err == nil {
			return fmt.Errorf("pattern list include=%q exclude=%q is invalid (%v) but the walk succeeded", c.Include, c.Exclude, rerr)
		}
		return nil
	}
	if real.err != nil {
		return fmt.Errorf("filtered walk failed: %v (include=%q exclude=%q)", real.err, c.Include, c.Exclude)
	}
	if ref.Pruneable > 0 {
		env.Class("prunable-dir")
		env.NonTrivial()
	}
	if ref.Lazy > 0 {
		env.Class("lazy-ancestor")
		env.NonTrivial()
	}
	if h.HasNegation(c.Include) || h.HasNegation(c.Exclude) {
		env.Class("negation")
		env.NonTrivial()
	}
	if c.Map != nil {
		env.Class("map")
	}
	if len(c.CbSkip) > 0 {
		env.Class("callback-skipdir")
	}
	if len(ref.Reported) == 0 {
		env.Class("empty-result")
	}
	env.Note("reported", len(ref.Reported))
	// structural clauses, always
	seen := map[string]bool{}
	mapped := map[string]bool{}
	for _, ev := range real.calls {
		switch {
		case strings.HasPrefix(ev, "mapdirty:"):
			return fmt.Errorf("the map function was handed a stat that is not the entry's own (an earlier consultation's rewrite shows through): %s", ev[len("mapdirty:"):])
		case strings.HasPrefix(ev, "mapmismatch:"):
			return fmt.Errorf("map function called with path that differs from stat.Path: %s", ev)
		case strings.HasPrefix(ev, "map:"):
			mapped[ev[4:]] = true
		case strings.HasPrefix(ev, "fn:"):
			p := ev[3:]
			if seen[p] {
				return fmt.Errorf("%q reported twice", p)
			}
			seen[p] = true
			if c.Map != nil && !mapped[p] {
				return fmt.Errorf("%q reported before the map function was consulted for it", p)
			}
		}
	}
	for i := 1; i < len(real.got); i++ {
		if h.CmpComponents(real.got[i-1].Path, real.got[i].Path) >= 0 {
			return fmt.Errorf("%q reported before %q (not walk order)", real.got[i-1].Path, real.got[i].Path)
		}
	}
	gotPaths := make([]string, len(real.got))
	for i, g := range real.got {
		gotPaths[i] = g.Path
	}
	if ref.Weak {
		// order of map calls for lazily emitted ancestors is not fixed by the
		// statement: only the structural clauses plus "nothing the filter or the
		// map function drops is reported" are checked
		env.Class("weak-lazy-skipdir")
		refNoMap, _ := c10Reference(listing, &c10Case{Tree: c.Tree, Include: c.Include, Exclude: c.Exclude}, false)
		allowed := map[string]bool{}
		for _, p := range refNoMap.Reported {
			allowed[p] = true
		}
		// the dependency's parent-results divergence shows here too: a path the
		// naive evaluation drops but the unpruned chain model reports
		chainAllowed := map[string]bool{}
		if chain, cerr := c10Reference(listing, &c10Case{Tree: c.Tree, Include: c.Include, Exclude: c.Exclude}, true); cerr == nil {
			for _, p := range chain.Reported {
				chainAllowed[p] = true
			}
		}
		var divergent []string
		for _, p := range gotPaths {
			if !allowed[p] {
				if chainAllowed[p] {
					divergent = append(divergent, p)
					continue
				}
				return fmt.Errorf("%q reported but neither selected nor an ancestor of a selected entry", p)
			}
			if c.Map != nil && c.Map[p].Res != 0 {
				return fmt.Errorf("%q reported although the map function dropped it", p)
			}
		}
		if len(divergent) > 0 {
			return env.Known("patternmatcher-parent-results-divergence",
				"include=%q exclude=%q (callback SkipDir on %q): walk reports %q which the naive reference drops; patternmatcher.MatchesUsingParentResults (threaded down the ancestor chain, no pruning) selects them too", c.Include, c.Exclude, c.CbSkip, divergent)
		}
		return nil
	}
	if strings.Join(gotPaths, "\x00") != strings.Join(ref.Reported, "\x00") {
		// is it the dependency's parent-results divergence?
		chain, cerr := c10Reference(listing, c, true)
		if cerr == nil && strings.Join(gotPaths, "\x00") == strings.Join(chain.Reported, "\x00") {
			return env.Known("patternmatcher-parent-results-divergence",
				"include=%q exclude=%q: walk reports %q, the naive reference %q; patternmatcher.MatchesUsingParentResults (threaded down the ancestor chain, no pruning) reproduces the walk's answer", c.Include, c.Exclude, gotPaths, ref.Reported)
		}
		return fmt.Errorf("include=%q exclude=%q map=%v cbskip=%v: walk reports %q, reference filter reports %q", c.Include, c.Exclude, c.Map, c.CbSkip, gotPaths, ref.Reported)
	}
	// stats: as the plain walk reports them, with the map function's rewrite
	for _, g := range real.got {
		want := fullStat[g.Path].Clone()
		if c.Map != nil && c.Map[g.Path].Rewrite {
			rewriteStat(want)
		}
		if err := cmpStat(g.Stat, want, false); err != nil {
			return fmt.Errorf("%q: %v", g.Path, err)
		}
	}
	return nil
}

func TestC10(t *testing.T) {
	r := h.NewRunner("C10")
	defer r.Finish(t)
	h.RunWith(t, r, "", genC10, c10Check)
	if t.Failed() {
		return
	}
	t.Run("unpriv", func(t *testing.T) {
		h.ScaleChecks(1, 40, func() { h.RunWith(t, r, "unpriv", genC10Unpriv, c10UnprivCheck) })
	})
}

// ---------------------------------------------------------------------------
// sub-run "unpriv": the filtered walk runs as uid 1000 (chrooted sub-process)
// over a tree it owns in which one or two directories cannot be listed by it.
// Where the patterns select nothing at or below such a directory, the naive
// evaluation never has to look inside, so the walk must succeed with exactly the
// naive result - whether or not its pruning shortcut applies (a wildcard in an
// exception or in an include pattern switches the shortcut off).

type c10UnprivCase struct {
	Tree    *h.Tree  `json:"tree"`
	Include []string `json:"include,omitempty"`
	Exclude []string `json:"exclude,omitempty"`
}

func genC10Unpriv(t *rapid.T) *c10UnprivCase {
	c := &c10UnprivCase{Tree: h.GenTree(t, c01UnprivCfg, "t")}
	unprivNormalize(c.Tree)
	var dirs, tops []string
	for _, n := range c.Tree.Nodes {
		if n.Kind == h.KDir {
			dirs = append(dirs, n.Path)
		}
		if !strings.Contains(n.Path, "/") {
			tops = append(tops, n.Path)
		}
	}
	if len(dirs) == 0 {
		c.Tree.Nodes = append(c.Tree.Nodes, h.Node{Path: "d", Kind: h.KDir, Perm: 0o700, Uid: 1000, Gid: 1000}, h.Node{Path: "d/inner", Kind: h.KFile, Perm: 0o644, Uid: 1000, Gid: 1000, Size: 3, Seed: 3})
		c.Tree.Normalize()
		dirs, tops = []string{"d"}, append(tops, "d")
	}
	locked := map[string]bool{}
	for i := 0; i < rapid.IntRange(1, 2).Draw(t, "nlocked"); i++ {
		locked[rapid.SampledFrom(dirs).Draw(t, fmt.Sprintf("locked%d", i))] = true
	}
	perm := rapid.SampledFrom([]uint32{0, 0o300, 0o100, 0o200}).Draw(t, "lockedperm")
	for i := range c.Tree.Nodes {
		if n := &c.Tree.Nodes[i]; locked[n.Path] {
			n.Perm = perm
		}
	}
	c.Tree.Normalize()
	noMatch := rapid.SampledFrom([]string{"", "", "!*/zz-none", "!**/zz-none", "!zz-n*"}).Draw(t, "exception")
	if rapid.Bool().Draw(t, "byexclude") {
		for d := range locked {
			c.Exclude = append(c.Exclude, d)
		}
		sort.Strings(c.Exclude)
		if rapid.IntRange(0, 3).Draw(t, "moreexc") == 0 && len(tops) > 0 {
			c.Exclude = append(c.Exclude, rapid.SampledFrom(tops).Draw(t, "exctop"))
		}
		if noMatch != "" {
			c.Exclude = append(c.Exclude, noMatch)
		}
	} else {
		for i := 0; i < rapid.IntRange(1, 3).Draw(t, "ninc"); i++ {
			c.Include = append(c.Include, rapid.SampledFrom(append([]string{"zz-none", "*/zz-none", "a*", "[a-b]", "*b"}, tops...)).Draw(t, fmt.Sprintf("inc%d", i)))
		}
	}
	return c
}

func c10UnprivCheck(env *h.Env, c *c10UnprivCase) error {
	jail := filepath.Join(env.Scratch, "jail")
	src := filepath.Join(jail, "src")
	if err := os.MkdirAll(src, 0o755); err != nil {
		return h.Infra(err)
	}
	if err := h.Materialise(c.Tree, src); err != nil {
		return h.Infra(err)
	}
	if err := os.Chown(src, 1000, 1000); err != nil {
		return h.Infra(err)
	}
	os.Chmod(jail, 0o755)
	os.Chmod(env.Scratch, 0o755)
	snap, err := h.Snapshot(src) // taken as root: the complete listing
	if err != nil {
		return h.Infra(err)
	}
	full := expectWalk(snap, func(string) bool { return true })
	var listing []h.FilterEntry
	var locked []string
	for _, w := range full {
		listing = append(listing, h.FilterEntry{Path: w.Path, IsDir: w.Stat.IsDir()})
		if w.Stat.IsDir() && w.Stat.Mode&0o400 == 0 {
			locked = append(locked, w.Path)
		}
	}
	cc := &c10Case{Tree: c.Tree, Include: c.Include, Exclude: c.Exclude}
	ref, rerr := c10Reference(listing, cc, false)
	if rerr != nil {
		return h.Infra(rerr)
	}
	for _, p := range ref.Reported {
		for _, d := range locked {
			if p == d || strings.HasPrefix(p, d+"/") {
				// the result needs (the inside of) a directory the walker cannot list
				env.Class("selection-needs-unlistable-directory")
				return nil
			}
		}
	}
	var res c09JailResult
	if err := runJailed(jail, "walk", 1000, jailWalkArg{Include: c.Include, Exclude: c.Exclude}, &res); err != nil {
		return h.Infra(err)
	}
	env.Class("unprivileged-filtered-walk")
	env.NonTrivial()
	what := fmt.Sprintf("walk as uid 1000, include=%q exclude=%q, directories it cannot list: %q", c.Include, c.Exclude, locked)
	if res.Err != "" {
		return fmt.Errorf("%s: failed with %q although nothing at or below those directories is selected (the naive evaluation reports %q)", what, res.Err, ref.Reported)
	}
	var got []string
	for i := range res.Stats {
		got = append(got, string(res.Stats[i].Path))
	}
	if strings.Join(got, "\x00") != strings.Join(ref.Reported, "\x00") {
		if chain, cerr := c10Reference(listing, cc, true); cerr == nil && strings.Join(got, "\x00") == strings.Join(chain.Reported, "\x00") {
			return env.Known("patternmatcher-parent-results-divergence", "%s: walk reports %q, the naive reference %q; the chain model reproduces the walk's answer", what, got, ref.Reported)
		}
		return fmt.Errorf("%s: walk reports %q, reference filter reports %q", what, got, ref.Reported)
	}
	return nil
}
