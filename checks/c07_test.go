package checks

import (
	"bytes"
	"context"
	"crypto/sha256"
	"encoding/binary"
	"encoding/hex"
	"errors"
	"fmt"
	"io"
	"os"
	"path/filepath"
	"sync"
	"testing"

	"github.com/tonistiigi/fsutil"
	"github.com/tonistiigi/fsutil/types"
	"github.com/tonistiigi/fsutil/util"
	"pgregory.net/rapid"

	h "verif/harness"
)

// ---------------------------------------------------------------------------
// C07: the receiver speaks the documented protocol to any conforming sender

type c07Case struct {
	Tree     *h.Tree      `json:"tree"`
	Dst      *h.Tree      `json:"dst"` // prior destination (nil = empty)
	LinkFull bool         `json:"linkfull"`
	Many     int          `json:"many"` // extra flat files many/f0000.. announced (large fan-out)
	Script   h.SendScript `json:"script"`
	Capacity int          `json:"capacity"`
	// Proto: the receiver talks through the library's own length-prefixed byte
	// stream (util.NewProtoStream over pipes) behind a bridge to the reference sender
	Proto bool `json:"proto,omitempty"`
	// Shrunk > 0: one regular file is announced this many bytes longer than the content
	// the sender then has for it (it shrank between the sender's lstat and its read)
	Shrunk int `json:"shrunk,omitempty"`
	// Huge > 0: one more file of this size (with 1 MiB chunks: payloads at the 1 MiB mark)
	Huge int `json:"huge,omitempty"`
}

var c07TreeCfg = h.TreeCfg{
	MaxEntries: 10, MaxDepth: 3, Names: []string{"a", "b", "ab", "a-b", "a.b", "c", "a0", "d"},
	Kinds:  []h.Kind{h.KFile, h.KFile, h.KFile, h.KFile, h.KSymlink, h.KFifo, h.KChar},
	Xattrs: true, Hardlinks: true, SpecialLinks: true, BigFiles: true,
}

func genC07(t *rapid.T) *c07Case {
	c := &c07Case{Tree: h.GenTree(t, c07TreeCfg, "t")}
	switch rapid.IntRange(0, 3).Draw(t, "dstmode") {
	case 0:
	case 1:
		c.Dst = h.GenTree(t, c07TreeCfg, "dst")
	default:
		d := c.Tree
		n := rapid.IntRange(0, 3).Draw(t, "nedits")
		for i := 0; i < n; i++ {
			d, _ = h.GenEdit(t, d, fmt.Sprintf("e%d", i), c07TreeCfg.Names)
		}
		c.Dst = d
	}
	h.AlignIdentical(c.Tree, c.Dst, false, 0, 0)
	c.LinkFull = rapid.Bool().Draw(t, "linkfull")
	sc := &c.Script
	switch rapid.IntRange(0, 6).Draw(t, "chunkmode") {
	case 0:
		sc.Chunk = []int{1}
	case 1:
		sc.Chunk = []int{7}
	case 2:
		sc.Chunk = []int{32 * 1024}
	case 3:
		sc.Chunk = []int{32*1024 - 1, 32*1024 + 1}
	case 4:
		sc.Chunk = []int{1 << 20}
	default:
		sc.Chunk = rapid.SliceOfN(rapid.SampledFrom([]int{1, 2, 7, 100, 4096, 32767, 32768, 32769, 65536, 1 << 20}), 1, 5).Draw(t, "chunks")
	}
	if len(sc.Chunk) == 1 && sc.Chunk[0] < 8 {
		// tiny chunks: keep files small so a case stays cheap
		for i := range c.Tree.Nodes {
			if c.Tree.Nodes[i].Size > 3000 {
				c.Tree.Nodes[i].Size = 3000
			}
		}
		c.Tree.Normalize()
	}
	sc.Choices = rapid.SliceOfN(rapid.IntRange(0, 7), 1, 12).Draw(t, "choices")
	sc.RaceStats = rapid.Bool().Draw(t, "race")
	sc.Tail = "echo"
	if rapid.IntRange(0, 3).Draw(t, "trailing") == 0 {
		sc.Trailing = rapid.IntRange(1, 4).Draw(t, "ntrailing")
	}
	if rapid.IntRange(0, 5).Draw(t, "eof") == 0 {
		sc.Tail = "eof"
		sc.EOFAfter = rapid.IntRange(0, 2*len(c.Tree.Nodes)+2).Draw(t, "eofafter")
	}
	c.Capacity = rapid.SampledFrom([]int{0, 0, 1, 8, 64}).Draw(t, "cap")
	if rapid.IntRange(0, 3).Draw(t, "serial") == 0 {
		// a single-threaded sender on a transport that holds (next to) nothing
		sc.Serial = true
		c.Capacity = rapid.SampledFrom([]int{0, 0, 1}).Draw(t, "serialcap")
	}
	if rapid.IntRange(0, 6).Draw(t, "many") == 0 {
		c.Many = rapid.SampledFrom([]int{70, 150, 400, 1100}).Draw(t, "nmany")
	}
	c.Proto = rapid.IntRange(0, 4).Draw(t, "proto") == 0
	if rapid.IntRange(0, 4).Draw(t, "shrunk") == 0 {
		c.Shrunk = rapid.SampledFrom([]int{1, 7, 40000}).Draw(t, "shrunkby")
	}
	if len(sc.Chunk) == 1 && sc.Chunk[0] == 1<<20 && rapid.Bool().Draw(t, "hugefile") {
		c.Huge = 1<<20 + rapid.SampledFrom([]int{0, 1, 5, 1 << 20}).Draw(t, "hugeextra")
	}
	return c
}

func c07Tree(c *c07Case) *h.Tree {
	if c.Many == 0 && c.Huge == 0 {
		return c.Tree
	}
	tr := c.Tree.Clone()
	if _, ok := tr.Index()["huge"]; !ok && c.Huge > 0 {
		tr.Nodes = append(tr.Nodes, h.Node{Path: "huge", Kind: h.KFile, Perm: 0o644, Mtime: 9, Seed: 4711, Size: c.Huge})
		tr.Normalize()
	}
	if c.Many == 0 {
		return tr
	}
	if _, ok := tr.Index()["many"]; !ok {
		tr.Nodes = append(tr.Nodes, h.Node{Path: "many", Kind: h.KDir, Perm: 0o755, Mtime: 5})
		for i := 0; i < c.Many; i++ {
			tr.Nodes = append(tr.Nodes, h.Node{Path: fmt.Sprintf("many/f%04d", i), Kind: h.KFile, Perm: 0o644, Mtime: 7, Seed: uint32(1000 + i), Size: 10 + i%3})
		}
		tr.Normalize()
	}
	return tr
}

// c07ReceiveOverProtoStream runs Receive over util.NewProtoStream on two pipes and
// bridges the byte stream to the harness pair with its own framing codec.
func c07ReceiveOverProtoStream(pair *h.Pair, dest string) (err error) {
	toBridgeR, toBridgeW := io.Pipe()
	// towards the receiver a kernel pipe (buffers: several frames can be waiting)
	toRecvR, toRecvW, perr := os.Pipe()
	if perr != nil {
		return perr
	}
	stream := util.NewProtoStream(pair.R.Context(), toRecvR, toBridgeW)
	var bw sync.WaitGroup
	bw.Add(1)
	go func() { // receiver -> sender
		defer bw.Done()
		var hd [4]byte
		for {
			if _, e := io.ReadFull(toBridgeR, hd[:]); e != nil {
				return
			}
			body := make([]byte, binary.BigEndian.Uint32(hd[:]))
			if _, e := io.ReadFull(toBridgeR, body); e != nil {
				return
			}
			var p types.Packet
			if e := p.UnmarshalVT(body); e != nil {
				pair.R.Break(fmt.Errorf("verif: undecodable frame from the receiver: %v", e))
				toBridgeR.CloseWithError(e)
				return
			}
			if e := pair.R.SendMsg(&p); e != nil {
				toBridgeR.CloseWithError(e)
				return
			}
		}
	}()
	go func() { // sender -> receiver
		for {
			var p types.Packet
			if e := pair.R.RecvMsg(&p); e != nil {
				toRecvW.Close()
				return
			}
			body, _ := p.MarshalVT()
			var hd [4]byte
			binary.BigEndian.PutUint32(hd[:], uint32(len(body)))
			if _, e := toRecvW.Write(append(hd[:], body...)); e != nil {
				return
			}
		}
	}()
	func() {
		defer func() {
			if r := recover(); r != nil {
				err = fmt.Errorf("Receive panicked: %v", r)
			}
		}()
		err = fsutil.Receive(pair.R.Context(), stream, dest, fsutil.ReceiveOpt{})
	}()
	toBridgeW.Close()
	toRecvR.Close()
	bw.Wait()
	return err
}

func c07Check(env *h.Env, c *c07Case) error {
	dstDir := filepath.Join(env.Scratch, "dst")
	if err := os.Mkdir(dstDir, 0o755); err != nil {
		return h.Infra(err)
	}
	if c.Dst != nil {
		if err := h.Materialise(c.Dst, dstDir); err != nil {
			return h.Infra(err)
		}
	}
	before, err := h.Snapshot(dstDir)
	if err != nil {
		return h.Infra(err)
	}
	tree := c07Tree(c)
	mem := &h.MemFS{T: tree, LinkSizeFull: c.LinkFull}
	stats := mem.Stats()
	if c.Shrunk > 0 {
		for _, st := range stats {
			if os.FileMode(st.Mode).IsRegular() && st.Linkname == "" && st.Size > 0 {
				st.Size += int64(c.Shrunk)
				env.Class("announced-longer-than-sent")
				break
			}
		}
	}
	data := map[string][]byte{}
	for _, n := range tree.Nodes {
		if n.Kind == h.KFile && n.LinkTo == "" {
			data[n.Path] = h.Content(n.Seed, n.Size)
		}
	}
	o := &resyncObs{dstDir: dstDir, before: before, announced: stats, annIdx: map[string]*types.Stat{}, destStat: map[string]*types.Stat{}, may: map[string]bool{}, changed: map[string]bool{}, unchanged: map[string]bool{}}
	for _, st := range stats {
		o.annIdx[st.Path] = st
	}
	o.classify(0)

	pair := h.NewPair(context.Background(), c.Capacity)
	var recvErr error
	sr := h.NewRefSendResult()
	var atFinErr error
	atFin := func() {
		// the receiver is blocked waiting for the FIN echo: everything must be on disk
		snap, err := h.Snapshot(dstDir)
		if err != nil {
			atFinErr = h.Infra(err)
			return
		}
		for id, sent := range sr.Sent {
			p := stats[id].Path
			e := snap[p]
			sum := sha256.Sum256(sent)
			if e == nil || e.Kind != h.KFile || e.Sha != hex.EncodeToString(sum[:]) {
				atFinErr = fmt.Errorf("FIN was sent but %q (id %d) does not hold the %d bytes sent for it (on disk: %+v)", p, id, len(sent), e)
				return
			}
		}
	}
	var wg sync.WaitGroup
	wg.Add(2)
	go func() {
		defer wg.Done()
		if c.Proto {
			recvErr = c07ReceiveOverProtoStream(pair, dstDir)
		} else {
			recvErr = fsutil.Receive(pair.R.Context(), pair.R, dstDir, fsutil.ReceiveOpt{})
		}
		pair.R.Returned(recvErr)
	}()
	go func() {
		defer wg.Done()
		h.RunRefSender(sr, pair.S, stats, func(id uint32, st *types.Stat) []byte { return data[st.Path] }, c.Script, atFin)
	}()
	done := make(chan struct{})
	go func() { wg.Wait(); close(done) }()
	if dump := h.WaitOrStuck(done, pair); dump != "" {
		pair.S.Break(nil)
		pair.R.Break(nil)
		pair.S.Cancel()
		pair.R.Cancel()
		<-done
		return fmt.Errorf("Receive never returned against a conforming sender (script %+v); blocked goroutines:\n%s", c.Script, dump)
	}
	pair.S.Cancel()
	pair.R.Cancel()
	if atFinErr != nil {
		return atFinErr
	}

	eof := c.Script.Tail == "eof" && sr.ClosedEarly
	if sr.Interleaved {
		env.Class("interleaved-ids")
		if len(sr.Sent) >= 2 {
			env.NonTrivial()
		}
	}
	if !(len(c.Script.Chunk) == 1 && c.Script.Chunk[0] == 32*1024) && len(sr.Sent) > 0 {
		env.Class("chunking!=32KiB")
		env.NonTrivial()
	}
	if c.Script.Serial {
		env.Class("single-threaded-sender")
	}
	if c.Proto {
		env.Class("library-byte-stream")
	}
	if c.Huge > 0 {
		env.Class("payload-at-1MiB")
	}
	if c.Script.RaceStats {
		env.Class("stat-data-race")
	}
	if eof {
		env.Class("eof-before-fin")
	}
	if c.Dst != nil {
		env.Class("prior-dest")
	}
	if c.Many > 0 {
		env.Class(fmt.Sprintf("fanout-%d", c.Many))
	}
	env.Note("reqs", len(sr.Reqs))

	// monitor on the receiver -> sender direction
	log := pair.Log()
	statSeq := map[uint32]int64{}
	var markerSeq int64
	termSeq := map[uint32]int64{}
	idx := uint32(0)
	for _, r := range log {
		if r.From != "S" {
			continue
		}
		switch r.Type {
		case "STAT":
			if r.HasStat {
				statSeq[idx] = r.Seq
				idx++
			} else {
				markerSeq = r.Seq
			}
		case "DATA":
			if r.DataLen == 0 {
				termSeq[r.ID] = r.Seq
			}
		}
	}
	reqCount := map[uint32]int{}
	var finSeq int64
	for _, r := range log {
		if r.From != "R" {
			continue
		}
		switch r.Type {
		case "REQ":
			reqCount[r.ID]++
			s, announced := statSeq[r.ID]
			if !announced || s > r.Seq {
				return fmt.Errorf("REQ for id %d before that id was announced", r.ID)
			}
			st := stats[r.ID]
			if !isRegular(st) {
				return fmt.Errorf("REQ for id %d (%s) which is not a regular file (mode %v)", r.ID, st.Path, os.FileMode(st.Mode))
			}
			if st.Linkname != "" {
				return fmt.Errorf("REQ for id %d (%s) which is a hard link to %q", r.ID, st.Path, st.Linkname)
			}
			if o.unchanged[st.Path] && !o.may[st.Path] {
				return fmt.Errorf("REQ for id %d (%s) whose identity equals the destination's", r.ID, st.Path)
			}
			if reqCount[r.ID] > 1 {
				return fmt.Errorf("id %d (%s) requested %d times", r.ID, st.Path, reqCount[r.ID])
			}
		case "FIN":
			if finSeq != 0 {
				return fmt.Errorf("FIN sent twice")
			}
			finSeq = r.Seq
		case "ERR":
			if !eof {
				return fmt.Errorf("receiver sent ERR %q to a conforming sender", string(r.Data))
			}
		case "STAT", "DATA":
			return fmt.Errorf("receiver sent a %s packet", r.Type)
		}
	}
	if len(sr.ReqBeforeStat) > 0 {
		return fmt.Errorf("REQ for ids not announced yet: %v", sr.ReqBeforeStat)
	}
	if finSeq != 0 {
		if markerSeq == 0 || markerSeq > finSeq {
			return fmt.Errorf("FIN sent before the end-of-stats marker arrived")
		}
		for id := range reqCount {
			if ts, ok := termSeq[id]; !ok || ts > finSeq {
				return fmt.Errorf("FIN sent before the terminator of requested id %d arrived", id)
			}
		}
		// everything that had to be requested was requested
		for i, st := range stats {
			if isRegular(st) && st.Linkname == "" && o.changed[st.Path] && !o.may[st.Path] && reqCount[uint32(i)] == 0 {
				return fmt.Errorf("FIN sent but id %d (%s), whose identity differs from the destination's, was never requested", i, st.Path)
			}
		}
	}
	if eof {
		if recvErr == nil {
			return fmt.Errorf("stream ended before the receiver's FIN (after %d packets) but Receive returned success", sr.PacketsSent)
		}
		return nil
	}
	if recvErr != nil {
		return fmt.Errorf("Receive failed against a conforming sender: %v (script %+v)", recvErr, c.Script)
	}
	if finSeq == 0 {
		return fmt.Errorf("Receive returned success without sending FIN")
	}
	// "then reads to end of stream": whatever the sender still sent after its FIN
	// echo was taken off the stream before the call returned
	if c.Script.Trailing > 0 && c.Script.Tail == "echo" {
		env.Class("packets-after-fin-echo")
		delivered, finEchoSeen := 0, false
		for _, r := range h.From(pair.Log(), "S") {
			if r.Type == "FIN" {
				finEchoSeen = true
				continue
			}
			if finEchoSeen && r.Delivered != 0 {
				delivered++
			}
		}
		if delivered != c.Script.Trailing {
			return fmt.Errorf("Receive returned success after reading %d of the %d packets the sender sent between its FIN echo and the end of the stream", delivered, c.Script.Trailing)
		}
	}
	// final content: exactly the concatenation of the payloads, unchanged files untouched
	after, err := h.Snapshot(dstDir)
	if err != nil {
		return h.Infra(err)
	}
	for id, sent := range sr.Sent {
		p := stats[id].Path
		dt, err := os.ReadFile(filepath.Join(dstDir, filepath.FromSlash(p)))
		if err != nil || !bytes.Equal(dt, sent) {
			return fmt.Errorf("%q (id %d) holds %d bytes, %d were sent (err %v)", p, id, len(dt), len(sent), err)
		}
	}
	for id := range sr.Sent {
		o.reqPaths = append(o.reqPaths, stats[id].Path)
	}
	if errs := convergenceErrs(after, before, tree, 0, o.keepOld(0)); errs.Len() > 0 {
		return fmt.Errorf("destination differs from what the reference sender announced and sent: %v", errs.Err())
	}
	if ov := pair.R.GetOverlaps(); len(ov) > 0 {
		return fmt.Errorf("concurrent stream calls on the receiver endpoint: %s", ov[0])
	}
	return nil
}

func TestC07(t *testing.T) {
	r := h.NewRunner("C07")
	defer r.Finish(t)
	h.RunWith(t, r, "", genC07, c07Check)
	if t.Failed() {
		return
	}
	t.Run("unpriv", func(t *testing.T) {
		h.ScaleChecks(1, 10, func() { h.RunWith(t, r, "unpriv", genC07Unpriv, c07UnprivCheck) })
	})
}

// ---------------------------------------------------------------------------
// sub-run "unpriv": the receiver runs as uid 1000 (chrooted sub-process) against
// the reference sender: everything announced is owned by 1000, has no device
// nodes and only user.* xattrs, directories keep u+rwx - whatever an
// unprivileged user may create, including read-only and set-id files. The call
// must return success and store exactly what was sent.

type c07UnprivCase struct {
	Src      *h.Tree      `json:"src"`
	Dst      *h.Tree      `json:"dst"`
	Script   h.SendScript `json:"script"`
	Capacity int          `json:"capacity"`
	Steer    bool         `json:"steer,omitempty"` // hold the content writer between chmod and open (verif hook)
}

func genC07Unpriv(t *rapid.T) *c07UnprivCase {
	u := genC01Unpriv(t)
	c := &c07UnprivCase{Src: u.Src, Dst: u.Dst, Capacity: u.Capacity}
	c.Script.Chunk = []int{rapid.SampledFrom([]int{1, 7, 4096, 32768, 100000}).Draw(t, "chunk")}
	c.Script.Choices = rapid.SliceOfN(rapid.IntRange(0, 5), 1, 6).Draw(t, "choices")
	c.Script.RaceStats = rapid.Bool().Draw(t, "race")
	c.Script.Tail = "echo"
	c.Steer = rapid.Bool().Draw(t, "steer")
	// steered shape: a read-only file with content, many entries the diff has to work
	// through, then a hard link to that file - so that the file's content arrives
	// while the diff still has the link ahead of it
	if rapid.IntRange(0, 5).Draw(t, "lagginglink") == 0 {
		perm := rapid.SampledFrom([]uint32{0o400, 0o444, 0o555, 0o4555}).Draw(t, "ll.perm")
		size := rapid.SampledFrom([]int{1, 5, 40000}).Draw(t, "ll.size")
		n := rapid.SampledFrom([]int{150, 200, 260}).Draw(t, "ll.fillers")
		src := &h.Tree{Nodes: []h.Node{{Path: "a", Kind: h.KFile, Perm: perm, Uid: 1000, Gid: 1000, Mtime: 1_700_000_000_000_000_001, Seed: 3, Size: size}}}
		for i := 0; i < n; i++ {
			src.Nodes = append(src.Nodes, h.Node{Path: fmt.Sprintf("d%03d", i), Kind: h.KDir, Perm: 0o755, Uid: 1000, Gid: 1000, Mtime: 5})
		}
		src.Nodes = append(src.Nodes, h.Node{Path: "z", Kind: h.KFile, Perm: perm, Uid: 1000, Gid: 1000, Mtime: 1_700_000_000_000_000_001, Seed: 3, Size: size, LinkTo: "a"})
		src.Normalize()
		c.Src, c.Dst = src, nil
		c.Script.RaceStats = false
		c.Steer = true
	}
	return c
}

func c07UnprivCheck(env *h.Env, c *c07UnprivCase) error {
	jail := filepath.Join(env.Scratch, "jail")
	dest := filepath.Join(jail, "dst")
	if err := os.MkdirAll(dest, 0o755); err != nil {
		return h.Infra(err)
	}
	if c.Dst != nil {
		if err := h.Materialise(c.Dst, dest); err != nil {
			return h.Infra(err)
		}
	}
	if err := os.Chown(dest, 1000, 1000); err != nil {
		return h.Infra(err)
	}
	os.Chmod(jail, 0o755)
	os.Chmod(env.Scratch, 0o755)
	before, err := h.Snapshot(dest)
	if err != nil {
		return h.Infra(err)
	}
	mem := &h.MemFS{T: c.Src, LinkSizeFull: true}
	var stats []hStat
	for i, st := range mem.Stats() {
		stats = append(stats, hStat{Path: h.BStr(st.Path), Mode: st.Mode, Uid: st.Uid, Gid: st.Gid, Size: st.Size, Mtime: st.ModTime, Link: h.BStr(st.Linkname), Xattrs: st.Xattrs, Seed: c.Src.Nodes[i].Seed})
	}
	var res c03JailResult
	if err := runJailed(jail, "receive", 1000, c03JailArg{Dest: "/dst", Stats: stats, Mode: "normal", Script: c.Script, Capacity: c.Capacity, SteerChmod: c.Steer}, &res); err != nil {
		var crash *helperCrash
		if errors.As(err, &crash) {
			return fmt.Errorf("the unprivileged receiving %v", crash)
		}
		return h.Infra(err)
	}
	ro := false
	for _, n := range c.Src.Nodes {
		if n.Kind == h.KFile && n.Perm&0o200 == 0 && n.Size > 0 {
			ro = true
		}
	}
	env.Class("unprivileged-receiver")
	if res.HookCalls > 0 {
		env.Class("writer-held-between-chmod-and-open")
	}
	if res.HookRevoked > 0 {
		env.Class("write-permission-revoked-meanwhile")
	}
	env.Note("hook", fmt.Sprint(res.HookCalls, "/", res.HookRevoked))
	if ro {
		env.Class("read-only-file-with-content")
		env.NonTrivial()
	}
	if res.Stuck {
		return fmt.Errorf("unprivileged receiver (uid 1000) against a conforming sender never finished; blocked goroutines:\n%s", res.Dump)
	}
	if res.RecvErr != "" {
		return fmt.Errorf("unprivileged receiver (uid 1000) against a conforming sender failed: %s", res.RecvErr)
	}
	after, err := h.Snapshot(dest)
	if err != nil {
		return h.Infra(err)
	}
	o := &resyncObs{before: before, annIdx: map[string]*types.Stat{}, destStat: map[string]*types.Stat{}, may: map[string]bool{}, changed: map[string]bool{}, unchanged: map[string]bool{}}
	o.announced = mem.Stats()
	for _, st := range o.announced {
		o.annIdx[st.Path] = st
	}
	o.classify(0)
	for _, id := range res.Reqs {
		if int(id) < len(o.announced) {
			o.reqPaths = append(o.reqPaths, o.announced[id].Path)
		}
	}
	if errs := convergenceErrs(after, before, c.Src, 0, o.keepOld(0)); errs.Len() > 0 {
		return fmt.Errorf("unprivileged receiver (uid 1000): destination differs from what the reference sender announced and sent: %v", errs.Err())
	}
	return nil
}
