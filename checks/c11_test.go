package checks

import (
	"bytes"
	"context"
	"fmt"
	"io"
	gofs "io/fs"
	"os"
	"path"
	"path/filepath"
	"sort"
	"strings"
	"testing"

	"github.com/tonistiigi/fsutil"
	"github.com/tonistiigi/fsutil/types"
	"pgregory.net/rapid"

	h "verif/harness"
)

// ---------------------------------------------------------------------------
// C11: a filtered view transfers as a self-contained tree

type c11Level struct {
	Include []string `json:"include"`
	Exclude []string `json:"exclude"`
	Follow  []string `json:"follow"`
}

type c11Case struct {
	Tree   *h.Tree    `json:"tree"`
	Levels []c11Level `json:"levels"` // innermost first
	// EmptyLists: lists without entries are handed over as empty non-nil slices
	EmptyLists bool `json:"emptylists,omitempty"`
	Capacity   int  `json:"capacity"`
	// Wrap: the stack handed to Send is wrapped in a pass-through FS of a type the
	// library does not know (callers compose and wrap views freely)
	Wrap bool `json:"wrap,omitempty"`
}

// passFS forwards to another FS.
type passFS struct{ inner fsutil.FS }

func (p passFS) Walk(ctx context.Context, target string, fn gofs.WalkDirFunc) error {
	return p.inner.Walk(ctx, target, fn)
}
func (p passFS) Open(name string) (io.ReadCloser, error) { return p.inner.Open(name) }

var c11TreeCfg = h.TreeCfg{
	MaxEntries: 14, MaxDepth: 3,
	Names:     []string{"a", "b", "c", "ab", "a-b", "a.b", "sub", "sub-x", "sub.txt", "d", "x", "k", "a..b", "v1..2"},
	Kinds:     []h.Kind{h.KFile, h.KFile, h.KFile, h.KFile, h.KSymlink, h.KFifo, h.KFifo},
	Hardlinks: true, SpecialLinks: true, BigFiles: false, Xattrs: true, XattrNS: []string{"user.", "trusted."},
	SymTargets: []string{"a", "b", "../a", "/a", "sub", "../sub/a", "dangling", "/b/c", "."},
}

func genC11(t *rapid.T) *c11Case {
	c := &c11Case{Tree: h.GenTree(t, c11TreeCfg, "t")}
	c.EmptyLists = rapid.IntRange(0, 2).Draw(t, "emptylists") == 0
	nl := rapid.SampledFrom([]int{1, 1, 2}).Draw(t, "nlevels")
	for i := 0; i < nl; i++ {
		l := c11Level{
			Include: h.GenPatterns(t, c.Tree, fmt.Sprintf("l%d.inc", i), 2),
			Exclude: h.GenPatterns(t, c.Tree, fmt.Sprintf("l%d.exc", i), 2),
		}
		if rapid.IntRange(0, 3).Draw(t, fmt.Sprintf("l%d.hasfollow", i)) == 0 && len(c.Tree.Nodes) > 0 {
			k := rapid.IntRange(1, 2).Draw(t, fmt.Sprintf("l%d.nfollow", i))
			for j := 0; j < k; j++ {
				l.Follow = append(l.Follow, c.Tree.Nodes[rapid.IntRange(0, len(c.Tree.Nodes)-1).Draw(t, fmt.Sprintf("l%d.f%d", i, j))].Path)
			}
		}
		c.Levels = append(c.Levels, l)
	}
	// steer towards the interesting shape: hide the first member of a link group
	var firsts []string
	for _, n := range c.Tree.Nodes {
		if n.LinkTo != "" {
			firsts = append(firsts, n.LinkTo)
		}
	}
	if len(firsts) > 0 && rapid.IntRange(0, 2).Draw(t, "hidefirst") != 0 {
		p := firsts[rapid.IntRange(0, len(firsts)-1).Draw(t, "whichfirst")]
		if i := strings.LastIndex(p, "/"); i > 0 && rapid.Bool().Draw(t, "hidedir") {
			p = p[:i]
		}
		li := rapid.IntRange(0, len(c.Levels)-1).Draw(t, "hidelevel")
		c.Levels[li].Exclude = append(c.Levels[li].Exclude, p)
	}
	c.Capacity = rapid.SampledFrom([]int{0, 8, 64}).Draw(t, "cap")
	c.Wrap = rapid.IntRange(0, 2).Draw(t, "wrap") == 0
	return c
}

// dedupeLike mirrors what NewFilterFS does to the include list when follow
// paths are present (only used to classify the known dependency divergence).
func c11EffectiveIncludes(f fsutil.FS, l c11Level) []string {
	inc := append([]string{}, l.Include...)
	if l.Follow == nil {
		return inc
	}
	targets, err := fsutil.FollowLinks(f, l.Follow)
	if err != nil || targets == nil {
		return inc
	}
	inc = append(inc, targets...)
	var out []string
	last := "\x00"
	for _, s := range inc {
		if s == "." {
			return nil
		}
		if strings.HasPrefix(s, last+"/") {
			continue
		}
		out = append(out, s)
		last = s
	}
	return out
}

func c11Check(env *h.Env, c *c11Case) error {
	srcDir := filepath.Join(env.Scratch, "src")
	dstDir := filepath.Join(env.Scratch, "dst")
	for _, d := range []string{srcDir, dstDir} {
		if err := os.Mkdir(d, 0o755); err != nil {
			return h.Infra(err)
		}
	}
	if err := h.Materialise(c.Tree, srcDir); err != nil {
		return h.Infra(err)
	}
	base, err := fsutil.NewFS(srcDir)
	if err != nil {
		return h.Infra(err)
	}
	var view fsutil.FS = base
	type lvl struct {
		inc, exc []string
	}
	var eff []lvl
	for _, l := range c.Levels {
		opt := &fsutil.FilterOpt{IncludePatterns: listArg(l.Include, c.EmptyLists), ExcludePatterns: listArg(l.Exclude, c.EmptyLists), FollowPaths: l.Follow}
		eff = append(eff, lvl{c11EffectiveIncludes(view, l), l.Exclude})
		nv, err := fsutil.NewFilterFS(view, opt)
		if err != nil {
			env.Class("invalid-config")
			return nil
		}
		view = nv
	}
	// the view as the filtered walk reports it
	reported, err := collectFS(view, "/")
	if err != nil {
		return fmt.Errorf("filtered walk failed: %v", err)
	}
	rep := map[string]bool{}
	for _, w := range reported {
		rep[w.Path] = true
	}
	// independent reading of the pattern semantics: the naive reference filter, level by level
	// (the include list of a level = its patterns + the follow-path targets, in that order)
	snapAll, serr := h.Snapshot(srcDir)
	if serr != nil {
		return h.Infra(serr)
	}
	refView := func(chain bool) ([]string, error) {
		var listing []h.FilterEntry
		for _, p := range snapAll.Paths() {
			listing = append(listing, h.FilterEntry{Path: p, IsDir: snapAll[p].Kind == h.KDir})
		}
		mk := h.NewRefMatcher
		if chain {
			mk = h.NewChainMatcher
		}
		for _, l := range eff {
			inc, err := mk(l.inc)
			if err != nil {
				return nil, err
			}
			exc, err := mk(l.exc)
			if err != nil {
				return nil, err
			}
			r, err := h.RefFilter(listing, inc, exc, nil, nil)
			if err != nil {
				return nil, err
			}
			isDir := map[string]bool{}
			for _, e := range listing {
				isDir[e.Path] = e.IsDir
			}
			listing = nil
			for _, p := range r.Reported {
				listing = append(listing, h.FilterEntry{Path: p, IsDir: isDir[p]})
			}
		}
		var out []string
		for _, e := range listing {
			out = append(out, e.Path)
		}
		return out, nil
	}
	if want, err := refView(false); err == nil {
		var got []string
		for _, w := range reported {
			got = append(got, w.Path)
		}
		if !sameStrings(got, want) {
			if cw, cerr := refView(true); cerr == nil && sameStrings(got, cw) {
				return env.Known("patternmatcher-parent-results-divergence", "filter stack %+v: walk reports %v, the naive reference %v; the parent-results chain model reproduces the walk", c.Levels, got, want)
			}
			return fmt.Errorf("filter stack %+v (effective includes %v): the view's walk reports %v, the reference evaluation of the same pattern lists selects %v", c.Levels, eff, got, want)
		}
	}
	// divergence of the dependency's two evaluators on some path => the known finding may explain a mismatch
	diverges := func(p string) bool {
		for _, l := range eff {
			for _, pats := range [][]string{l.inc, l.exc} {
				rm, e1 := h.NewRefMatcher(pats)
				cm, e2 := h.NewChainMatcher(pats)
				if e1 != nil || e2 != nil || rm == nil {
					continue
				}
				a, _ := rm.Match(p)
				b, _ := cm.Match(p)
				if a != b {
					return true
				}
			}
		}
		return false
	}
	var repList []string
	for _, w := range reported {
		repList = append(repList, w.Path)
	}
	want, hiddenFirst, verr := restrictTree(c.Tree, repList)
	if verr != nil {
		return verr
	}
	idx := c.Tree.Index()
	if hiddenFirst {
		env.Class("first-member-hidden")
		env.NonTrivial()
	}
	neg := false
	for _, l := range c.Levels {
		if h.HasNegation(l.Include) || h.HasNegation(l.Exclude) {
			neg = true
		}
		if len(l.Follow) > 0 {
			env.Class("follow-paths")
		}
	}
	if neg {
		env.Class("negation")
		env.NonTrivial()
	}
	if len(c.Levels) > 1 {
		env.Class("nested-stack")
	}

	// (3) walk/Open agreement
	for _, n := range c.Tree.Nodes {
		if n.Kind != h.KFile {
			continue
		}
		rc, oerr := view.Open(n.Path)
		if rep[n.Path] {
			if oerr != nil {
				if diverges(n.Path) {
					return env.Known("patternmatcher-parent-results-divergence", "walk reports %q but Open through the same view refuses it (%v); the dependency's two evaluators disagree on this path", n.Path, oerr)
				}
				return fmt.Errorf("walk reports regular file %q but Open through the same view fails: %v (levels %+v)", n.Path, oerr, c.Levels)
			}
			dt, _ := io.ReadAll(rc)
			rc.Close()
			src := &n
			if n.LinkTo != "" {
				src = idx[n.LinkTo]
			}
			if !bytes.Equal(dt, h.Content(src.Seed, src.Size)) {
				return fmt.Errorf("Open(%q) yields %d bytes that differ from the file's content", n.Path, len(dt))
			}
		} else {
			if oerr == nil {
				rc.Close()
				if diverges(n.Path) {
					return env.Known("patternmatcher-parent-results-divergence", "walk hides %q but Open through the same view succeeds; the dependency's two evaluators disagree on this path", n.Path)
				}
				return fmt.Errorf("the filtered walk does not report %q but Open through the same view succeeds (levels %+v)", n.Path, c.Levels)
			}
			// ... under any other spelling of the same path either
			if !diverges(n.Path) {
				spell := []string{"./" + n.Path, "/" + n.Path, "zz/../" + n.Path, path.Dir(n.Path) + "/./" + path.Base(n.Path), n.Path + "/."}
				for _, m := range c.Tree.Nodes {
					if m.Kind == h.KDir {
						spell = append(spell, m.Path+"/"+strings.Repeat("../", strings.Count(m.Path, "/")+1)+n.Path)
						break
					}
				}
				for _, sp := range spell {
					if rc, err := view.Open(sp); err == nil {
						dt, _ := io.ReadAll(rc)
						rc.Close()
						env.Class("hidden-path-other-spelling")
						return fmt.Errorf("the filtered walk does not report %q, Open(%q) refuses it, but Open(%q) - the same path spelled differently - succeeds and yields %d bytes (levels %+v)", n.Path, n.Path, sp, len(dt), c.Levels)
					}
				}
			}
		}
	}

	// (1)+(2) transfer
	var sendView fsutil.FS = view
	if c.Wrap {
		env.Class("wrapped-view")
		sendView = passFS{view}
	}
	res := h.RunSync(sendView, dstDir, h.SyncOpt{Capacity: c.Capacity})
	if res.Stuck != "" {
		env.Class("stuck")
		return nil
	}
	var seq []h.SpecElem
	var stats []*types.Stat
	for _, r := range h.From(res.Pair.Log(), "S") {
		if r.Type == "STAT" && r.HasStat {
			k := h.SpecFile
			if r.Stat.IsDir() {
				k = h.SpecDir
			}
			seq = append(seq, h.SpecElem{Path: r.Stat.Path, Kind: k})
			stats = append(stats, r.Stat)
		}
	}
	if bad := h.StreamSpec(seq); bad >= 0 {
		return fmt.Errorf("sender emitted an invalid stream: element %d (%q) is unordered, unclean or has no parent (levels %+v)", bad, seq[bad].Path, c.Levels)
	}
	files := map[string]bool{}
	for _, st := range stats {
		m := os.FileMode(st.Mode)
		if m.IsDir() || m&os.ModeSymlink != 0 {
			continue
		}
		if st.Linkname != "" {
			if !files[st.Linkname] {
				return fmt.Errorf("sender emitted %q as a hard link to %q, which is not an earlier non-link entry of the stream (levels %+v)", st.Path, st.Linkname, c.Levels)
			}
		} else {
			files[st.Path] = true
		}
	}
	if res.SendErr != nil || res.RecvErr != nil {
		return fmt.Errorf("transfer of the filtered view failed: send=%v recv=%v (levels %+v)", res.SendErr, res.RecvErr, c.Levels)
	}
	var sent []string
	for _, st := range stats {
		sent = append(sent, st.Path)
	}
	var repPaths []string
	for _, w := range reported {
		repPaths = append(repPaths, w.Path)
	}
	sort.Strings(sent)
	sort.Strings(repPaths)
	if !sameStrings(sent, repPaths) {
		return fmt.Errorf("sender announced %v but the filtered walk reports %v", sent, repPaths)
	}
	after, err := h.Snapshot(dstDir)
	if err != nil {
		return h.Infra(err)
	}
	before := h.Snap{}
	want.Sort()
	if errs := convergenceErrs(after, before, want, 0); errs.Len() > 0 {
		// an empty file where the view has content is the signature of walk/Open disagreement
		return fmt.Errorf("destination differs from the filtered view (levels %+v): %v", c.Levels, errs.Err())
	}
	return nil
}

func TestC11(t *testing.T) {
	h.Run(t, "C11", genC11, c11Check)
}

// restrictTree is the tree a self-contained view of `reported` paths must
// look like: the model restricted to those paths, hard-link groups re-rooted at
// their first reported member (which becomes a full file).
func restrictTree(tree *h.Tree, reported []string) (*h.Tree, bool, error) {
	idx := tree.Index()
	groupOf := func(n *h.Node) string {
		if n.LinkTo != "" {
			return n.LinkTo
		}
		return n.Path
	}
	firstRep := map[string]string{}
	want := &h.Tree{}
	hiddenFirst := false
	for _, p := range reported {
		n, ok := idx[p]
		if !ok {
			return nil, false, fmt.Errorf("walk reports %q which does not exist in the source", p)
		}
		nn := *n
		if n.Kind != h.KDir && n.Kind != h.KSymlink {
			g := groupOf(n)
			if f, ok := firstRep[g]; ok {
				nn.LinkTo = f
			} else {
				firstRep[g] = n.Path
				if n.LinkTo != "" {
					hiddenFirst = true
					src := idx[n.LinkTo]
					nn.LinkTo = ""
					nn.Seed, nn.Size = src.Seed, src.Size
				}
			}
		}
		want.Nodes = append(want.Nodes, nn)
	}
	return want, hiddenFirst, nil
}
