package checks

import (
	"fmt"
	"hash"
	"os"
	"path/filepath"
	"runtime"
	"sort"
	"strings"
	"sync"
	"sync/atomic"
	"testing"
	"time"

	"github.com/tonistiigi/fsutil"
	"github.com/tonistiigi/fsutil/types"
	"pgregory.net/rapid"

	h "verif/harness"
)

// ---------------------------------------------------------------------------
// C08: outcome is schedule-independent; stream calls are serialized; no race

type c08Schedule struct {
	Capacity int    `json:"capacity"`
	Procs    int    `json:"procs"`
	Seed     uint32 `json:"seed"`  // drives the per-operation delays
	Gate     int    `json:"gate"`  // hold first reads until this many files are open (0 = no gate)
	Order    []int  `json:"order"` // release order choices for gated readers
}

type c08Case struct {
	Tree      *h.Tree       `json:"tree"`
	Many      int           `json:"many"`
	Dst       *h.Tree       `json:"dst"`
	Schedules []c08Schedule `json:"schedules"`
}

var c08TreeCfg = h.TreeCfg{
	MaxEntries: 8, MaxDepth: 2, Names: []string{"a", "b", "ab", "a-b", "c", "d"},
	Kinds:     []h.Kind{h.KFile, h.KFile, h.KFile, h.KSymlink},
	Hardlinks: true, BigFiles: true,
}

func genC08(t *rapid.T) *c08Case {
	c := &c08Case{Tree: h.GenTree(t, c08TreeCfg, "t")}
	c.Many = rapid.IntRange(30, 120).Draw(t, "many")
	if rapid.IntRange(0, 3).Draw(t, "huge") == 0 {
		// enough entries to fill every internal queue (64/128/132/256+ pending items)
		c.Many = rapid.SampledFrom([]int{400, 700}).Draw(t, "hugemany")
	}
	if rapid.Bool().Draw(t, "dirty") {
		d := c08Tree(c)
		for i := 0; i < rapid.IntRange(1, 4).Draw(t, "nedits"); i++ {
			d, _ = h.GenEdit(t, d, fmt.Sprintf("e%d", i), c08TreeCfg.Names)
		}
		c.Dst = d
		h.AlignIdentical(c08Tree(c), c.Dst, false, 0, 0)
	}
	m := 6
	if os.Getenv("VERIF_TIER") == "thorough" {
		m = 24
	}
	for i := 0; i < m; i++ {
		li := fmt.Sprintf("s%d.", i)
		s := c08Schedule{
			Capacity: rapid.SampledFrom([]int{0, 1, 2, 8, 64}).Draw(t, li+"cap"),
			Procs:    rapid.SampledFrom([]int{1, 2, 4, 16}).Draw(t, li+"procs"),
			Seed:     uint32(rapid.IntRange(1, 1<<30).Draw(t, li+"seed")),
		}
		if rapid.Bool().Draw(t, li+"gated") {
			s.Gate = rapid.SampledFrom([]int{2, 3, 4}).Draw(t, li+"gate")
			s.Order = rapid.SliceOfN(rapid.IntRange(0, 3), 1, 8).Draw(t, li+"order")
		}
		c.Schedules = append(c.Schedules, s)
	}
	return c
}

func c08Tree(c *c08Case) *h.Tree {
	tr := c.Tree.Clone()
	if _, ok := tr.Index()["many"]; !ok {
		tr.Nodes = append(tr.Nodes, h.Node{Path: "many", Kind: h.KDir, Perm: 0o755, Mtime: 5})
		sizes := []int{40000, 70000, 100003, 32768, 65537}
		if c.Many > 200 {
			sizes = []int{100, 33000, 7, 40000}
		}
		for i := 0; i < c.Many; i++ {
			tr.Nodes = append(tr.Nodes, h.Node{Path: fmt.Sprintf("many/f%04d", i), Kind: h.KFile, Perm: 0o644, Mtime: int64(7 + i), Seed: uint32(1000 + i), Size: sizes[i%len(sizes)]})
		}
		tr.Normalize()
	}
	return tr
}

// perturb returns a deterministic small disturbance for operation n of a kind.
func perturb(seed uint32, kind uint32, n int64) {
	x := uint64(seed)*0x9E3779B97F4A7C15 ^ uint64(kind)<<32 ^ uint64(n)*0xBF58476D1CE4E5B9
	x ^= x >> 31
	x *= 0x94D049BB133111EB
	x ^= x >> 29
	switch x % 8 {
	case 0, 1:
		runtime.Gosched()
	case 2:
		time.Sleep(time.Duration(20+x%200) * time.Microsecond)
	case 3:
		for i := 0; i < 3; i++ {
			runtime.Gosched()
		}
	}
}

// readGate parks the first read of every file until `want` readers are waiting
// (or a short while passed), then releases them in the drawn order: the
// harness, not the Go scheduler, decides which worker proceeds.
type readGate struct {
	mu      sync.Mutex
	want    int
	order   []int
	oi      int
	waiting []chan struct{}
	opened  map[string]bool
}

func (g *readGate) before(p string, off int) {
	if off != 0 {
		return
	}
	g.mu.Lock()
	if g.opened[p] {
		g.mu.Unlock()
		return
	}
	g.opened[p] = true
	ch := make(chan struct{})
	g.waiting = append(g.waiting, ch)
	if len(g.waiting) >= g.want {
		g.releaseLocked()
	}
	g.mu.Unlock()
	select {
	case <-ch:
	case <-time.After(3 * time.Millisecond):
		g.mu.Lock()
		g.releaseLocked()
		g.mu.Unlock()
		<-ch
	}
}

func (g *readGate) releaseLocked() {
	for len(g.waiting) > 0 {
		i := 0
		if len(g.order) > 0 {
			i = g.order[g.oi%len(g.order)] % len(g.waiting)
			g.oi++
		}
		close(g.waiting[i])
		g.waiting = append(g.waiting[:i], g.waiting[i+1:]...)
	}
}

type c08Outcome struct {
	Snap      string
	Reqs      string
	Notes     string
	Overlaps  []string
	Interleav bool
	Err       string
	Dump      string
}

func c08RunOne(env *h.Env, c *c08Case, tree *h.Tree, idx int, s c08Schedule) (*c08Outcome, error) {
	dstDir := filepath.Join(env.Scratch, fmt.Sprintf("dst%d", idx))
	if err := os.Mkdir(dstDir, 0o755); err != nil {
		return nil, h.Infra(err)
	}
	defer h.RemoveAllForce(dstDir)
	if c.Dst != nil {
		if err := h.Materialise(c.Dst, dstDir); err != nil {
			return nil, h.Infra(err)
		}
	}
	before, err := h.Snapshot(dstDir)
	if err != nil {
		return nil, h.Infra(err)
	}
	old := runtime.GOMAXPROCS(s.Procs)
	defer runtime.GOMAXPROCS(old)
	mem := &h.MemFS{T: tree, LinkSizeFull: true}
	var rn int64
	var gate *readGate
	if s.Gate > 0 {
		gate = &readGate{want: s.Gate, order: s.Order, opened: map[string]bool{}}
	}
	mem.BeforeRead = func(p string, off int) {
		if gate != nil {
			gate.before(p, off)
		}
		perturb(s.Seed, 1, atomic.AddInt64(&rn, 1))
	}
	var nl h.NotifyLog
	var hn, nn int64
	opt := fsutil.ReceiveOpt{
		ContentHasher: func(st *types.Stat) (hash.Hash, error) {
			perturb(s.Seed, 2, atomic.AddInt64(&hn, 1))
			return h.Hasher(st)
		},
		NotifyHashed: func(k fsutil.ChangeKind, p string, fi os.FileInfo, err error) error {
			perturb(s.Seed, 3, atomic.AddInt64(&nn, 1))
			return nl.Fn(k, p, fi, err)
		},
	}
	res := h.RunSync(mem, dstDir, h.SyncOpt{Capacity: s.Capacity, Recv: opt, Setup: func(p *h.Pair) {
		p.S.BeforeSend = func(n int, _ *types.Packet) error { perturb(s.Seed, 4, int64(n)); return nil }
		p.S.BeforeRecv = func(n int) error { perturb(s.Seed, 5, int64(n)); return nil }
		p.R.BeforeSend = func(n int, _ *types.Packet) error { perturb(s.Seed, 6, int64(n)); return nil }
		p.R.BeforeRecv = func(n int) error { perturb(s.Seed, 7, int64(n)); return nil }
		// after a packet was handed to the stream but before SendMsg returns to its
		// caller: the peer can already react to it
		p.R.AfterSend = func(n int, pk *types.Packet) {
			perturb(s.Seed, 8, int64(n))
			if (uint32(n)*2654435761^s.Seed)%7 == 0 {
				time.Sleep(1500 * time.Microsecond)
			}
		}
		p.S.AfterSend = func(n int, pk *types.Packet) {
			perturb(s.Seed, 9, int64(n))
			if (uint32(n)*2654435761^s.Seed)%23 == 0 {
				time.Sleep(800 * time.Microsecond)
			}
		}
	}})
	out := &c08Outcome{}
	if res.Stuck != "" {
		out.Err = "stuck"
		out.Dump = res.Stuck
		if len(out.Dump) > 6000 {
			out.Dump = out.Dump[:6000] + "..."
		}
		return out, nil
	}
	if res.SendErr != nil || res.RecvErr != nil {
		out.Err = fmt.Sprintf("send=%v recv=%v", res.SendErr, res.RecvErr)
		return out, nil
	}
	out.Overlaps = append(res.Pair.S.GetOverlaps(), res.Pair.R.GetOverlaps()...)
	after, err := h.Snapshot(dstDir)
	if err != nil {
		return nil, h.Infra(err)
	}
	// classification of identity for the timing-dependent hard-link exception
	o := &resyncObs{before: before, annIdx: map[string]*types.Stat{}, destStat: map[string]*types.Stat{}, may: map[string]bool{}, changed: map[string]bool{}, unchanged: map[string]bool{}}
	o.announced = mem.Stats()
	for _, st := range o.announced {
		o.annIdx[st.Path] = st
	}
	o.classify(0)
	// canonical snapshot: everything but inode numbers, ctime, and mtimes of pre-existing directories
	var sb strings.Builder
	for _, p := range after.Paths() {
		e := after[p]
		mt := e.Mtime
		if b, ok := before[p]; ok && e.Kind == h.KDir && b.Kind == h.KDir && b.Ino == e.Ino {
			mt = 0
		}
		fmt.Fprintf(&sb, "%s|%v|%o|%d:%d|%d|%s|%s|%d:%d|%d\n", p, e.Kind, e.Perm, e.Uid, e.Gid, e.Size, e.Sha, e.Target, e.Major, e.Minor, mt)
	}
	fmt.Fprintf(&sb, "groups=%v\n", partitionOf(after))
	out.Snap = sb.String()
	log := res.Pair.Log()
	var reqs []string
	for _, r := range h.From(log, "R") {
		if r.Type == "REQ" && int(r.ID) < len(o.announced) {
			if p := o.announced[r.ID].Path; !o.may[p] {
				reqs = append(reqs, p)
			}
		}
	}
	sort.Strings(reqs)
	out.Reqs = strings.Join(reqs, "\n")
	var notes []string
	for _, n := range nl.Snapshot() {
		if !o.may[n.Path] {
			notes = append(notes, n.Kind+" "+n.Path+" "+n.Digest)
		}
	}
	sort.Strings(notes)
	out.Notes = strings.Join(notes, "\n")
	// interleaving observed on the wire?
	last := int64(-1)
	open := map[uint32]bool{}
	for _, r := range h.From(log, "S") {
		if r.Type != "DATA" {
			continue
		}
		if r.DataLen == 0 {
			delete(open, r.ID)
			continue
		}
		open[r.ID] = true
		if last >= 0 && int64(r.ID) != last && open[uint32(last)] {
			out.Interleav = true
		}
		last = int64(r.ID)
	}
	return out, nil
}

func firstLineDiff(a, b string) string {
	al, bl := strings.Split(a, "\n"), strings.Split(b, "\n")
	for i := 0; i < len(al) || i < len(bl); i++ {
		var x, y string
		if i < len(al) {
			x = al[i]
		}
		if i < len(bl) {
			y = bl[i]
		}
		if x != y {
			return fmt.Sprintf("line %d: %q vs %q", i, x, y)
		}
	}
	return ""
}

func c08Check(env *h.Env, c *c08Case) error {
	tree := c08Tree(c)
	var ref *c08Outcome
	inter := false
	for i, s := range c.Schedules {
		out, err := c08RunOne(env, c, tree, i, s)
		if err != nil {
			return err
		}
		what := fmt.Sprintf("schedule %d (capacity %d, GOMAXPROCS %d, seed %d, gate %d)", i, s.Capacity, s.Procs, s.Seed, s.Gate)
		if out.Err == "stuck" {
			// a fault-free transfer that never terminates under this schedule
			return fmt.Errorf("%s: the fault-free transfer never terminated (every goroutine blocked):\n%s", what, out.Dump)
		}
		if out.Err != "" {
			return fmt.Errorf("%s: fault-free transfer failed: %s", what, out.Err)
		}
		if len(out.Overlaps) > 0 {
			return fmt.Errorf("%s: two stream calls were in flight on one endpoint at once:\n%s", what, out.Overlaps[0])
		}
		if out.Interleav {
			inter = true
		}
		if ref == nil {
			ref = out
			continue
		}
		if out.Snap != ref.Snap {
			return fmt.Errorf("%s: final destination differs from schedule 0: %s", what, firstLineDiff(ref.Snap, out.Snap))
		}
		if out.Reqs != ref.Reqs {
			return fmt.Errorf("%s: set of content requests differs from schedule 0: %s", what, firstLineDiff(ref.Reqs, out.Reqs))
		}
		if out.Notes != ref.Notes {
			return fmt.Errorf("%s: set of change notifications (with digests) differs from schedule 0: %s", what, firstLineDiff(ref.Notes, out.Notes))
		}
	}
	if inter {
		env.Class("interleaved-on-wire")
		env.NonTrivial()
	}
	env.R.CountN(len(c.Schedules), 0, "schedule-runs")
	return nil
}

func TestC08(t *testing.T) {
	h.Run(t, "C08", genC08, c08Check)
}
