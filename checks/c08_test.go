package checks

import (
	"fmt"
	"hash"
	"os"
	"path/filepath"
	"runtime"
	"sort"
	"strings"
	"sync"
	"sync/atomic"
	"syscall"
	"testing"
	"time"

	"github.com/tonistiigi/fsutil"
	"github.com/tonistiigi/fsutil/types"
	"pgregory.net/rapid"

	h "verif/harness"
)

// ---------------------------------------------------------------------------
// C08: outcome is schedule-independent; stream calls are serialized; no race

type c08Schedule struct {
	Capacity int    `json:"capacity"`
	Procs    int    `json:"procs"`
	Seed     uint32 `json:"seed"`  // drives the per-operation delays
	Gate     int    `json:"gate"`  // hold first reads until this many files are open (0 = no gate)
	Order    []int  `json:"order"` // release order choices for gated readers
	// HashGate > 0: the receiver's first ContentHasher call (a user callback) is held
	// until the receiver has sent that many packets (requests of later files), or 400 ms
	HashGate int `json:"hashgate,omitempty"`
}

type c08Case struct {
	Tree      *h.Tree       `json:"tree"`
	Many      int           `json:"many"`
	Dst       *h.Tree       `json:"dst"`
	Schedules []c08Schedule `json:"schedules"`
}

var c08TreeCfg = h.TreeCfg{
	MaxEntries: 8, MaxDepth: 2, Names: []string{"a", "b", "ab", "a-b", "c", "d"},
	Kinds:     []h.Kind{h.KFile, h.KFile, h.KFile, h.KSymlink},
	Hardlinks: true, BigFiles: true,
}

func genC08(t *rapid.T) *c08Case {
	c := &c08Case{Tree: h.GenTree(t, c08TreeCfg, "t")}
	c.Many = rapid.IntRange(30, 120).Draw(t, "many")
	if rapid.IntRange(0, 3).Draw(t, "huge") == 0 {
		// enough entries to fill every internal queue (64/128/132/256+ pending items)
		c.Many = rapid.SampledFrom([]int{400, 700}).Draw(t, "hugemany")
	}
	if rapid.Bool().Draw(t, "dirty") {
		d := c08Tree(c)
		for i := 0; i < rapid.IntRange(1, 4).Draw(t, "nedits"); i++ {
			d, _ = h.GenEdit(t, d, fmt.Sprintf("e%d", i), c08TreeCfg.Names)
		}
		c.Dst = d
		h.AlignIdentical(c08Tree(c), c.Dst, false, 0, 0)
	}
	m := 6
	if os.Getenv("VERIF_TIER") == "thorough" {
		m = 24
	}
	for i := 0; i < m; i++ {
		li := fmt.Sprintf("s%d.", i)
		s := c08Schedule{
			Capacity: rapid.SampledFrom([]int{0, 1, 2, 8, 64}).Draw(t, li+"cap"),
			Procs:    rapid.SampledFrom([]int{1, 2, 4, 16}).Draw(t, li+"procs"),
			Seed:     uint32(rapid.IntRange(1, 1<<30).Draw(t, li+"seed")),
		}
		if rapid.Bool().Draw(t, li+"gated") {
			s.Gate = rapid.SampledFrom([]int{2, 3, 4}).Draw(t, li+"gate")
			s.Order = rapid.SliceOfN(rapid.IntRange(0, 3), 1, 8).Draw(t, li+"order")
		}
		if c.Many >= 150 && rapid.IntRange(0, 2).Draw(t, li+"hashgated") == 0 {
			s.HashGate = rapid.SampledFrom([]int{130, 140, 200}).Draw(t, li+"hashgate")
			if s.HashGate > c.Many-5 {
				s.HashGate = c.Many - 5
			}
		}
		c.Schedules = append(c.Schedules, s)
	}
	return c
}

func c08Tree(c *c08Case) *h.Tree {
	tr := c.Tree.Clone()
	if _, ok := tr.Index()["many"]; !ok {
		tr.Nodes = append(tr.Nodes, h.Node{Path: "many", Kind: h.KDir, Perm: 0o755, Mtime: 5})
		sizes := []int{40000, 70000, 100003, 32768, 65537}
		if c.Many > 200 {
			sizes = []int{100, 33000, 7, 40000}
		}
		for i := 0; i < c.Many; i++ {
			tr.Nodes = append(tr.Nodes, h.Node{Path: fmt.Sprintf("many/f%04d", i), Kind: h.KFile, Perm: 0o644, Mtime: int64(7 + i), Seed: uint32(1000 + i), Size: sizes[i%len(sizes)]})
		}
		tr.Normalize()
	}
	return tr
}

// perturb returns a deterministic small disturbance for operation n of a kind.
func perturb(seed uint32, kind uint32, n int64) {
	x := uint64(seed)*0x9E3779B97F4A7C15 ^ uint64(kind)<<32 ^ uint64(n)*0xBF58476D1CE4E5B9
	x ^= x >> 31
	x *= 0x94D049BB133111EB
	x ^= x >> 29
	switch x % 8 {
	case 0, 1:
		runtime.Gosched()
	case 2:
		time.Sleep(time.Duration(20+x%200) * time.Microsecond)
	case 3:
		for i := 0; i < 3; i++ {
			runtime.Gosched()
		}
	}
}

// readGate parks the first read of every file until `want` readers are waiting
// (or a short while passed), then releases them in the drawn order: the
// harness, not the Go scheduler, decides which worker proceeds.
type readGate struct {
	mu      sync.Mutex
	want    int
	order   []int
	oi      int
	waiting []chan struct{}
	opened  map[string]bool
}

func (g *readGate) before(p string, off int) {
	if off != 0 {
		return
	}
	g.mu.Lock()
	if g.opened[p] {
		g.mu.Unlock()
		return
	}
	g.opened[p] = true
	ch := make(chan struct{})
	g.waiting = append(g.waiting, ch)
	if len(g.waiting) >= g.want {
		g.releaseLocked()
	}
	g.mu.Unlock()
	select {
	case <-ch:
	case <-time.After(3 * time.Millisecond):
		g.mu.Lock()
		g.releaseLocked()
		g.mu.Unlock()
		<-ch
	}
}

func (g *readGate) releaseLocked() {
	for len(g.waiting) > 0 {
		i := 0
		if len(g.order) > 0 {
			i = g.order[g.oi%len(g.order)] % len(g.waiting)
			g.oi++
		}
		close(g.waiting[i])
		g.waiting = append(g.waiting[:i], g.waiting[i+1:]...)
	}
}

type c08Outcome struct {
	Snap      string
	Reqs      string
	Notes     string
	Overlaps  []string
	Interleav bool
	Err       string
	Dump      string
}

func c08RunOne(env *h.Env, c *c08Case, tree *h.Tree, idx int, s c08Schedule) (*c08Outcome, error) {
	dstDir := filepath.Join(env.Scratch, fmt.Sprintf("dst%d", idx))
	if err := os.Mkdir(dstDir, 0o755); err != nil {
		return nil, h.Infra(err)
	}
	defer h.RemoveAllForce(dstDir)
	if c.Dst != nil {
		if err := h.Materialise(c.Dst, dstDir); err != nil {
			return nil, h.Infra(err)
		}
	}
	before, err := h.Snapshot(dstDir)
	if err != nil {
		return nil, h.Infra(err)
	}
	old := runtime.GOMAXPROCS(s.Procs)
	defer runtime.GOMAXPROCS(old)
	mem := &h.MemFS{T: tree, LinkSizeFull: true}
	var rn int64
	var gate *readGate
	if s.Gate > 0 {
		gate = &readGate{want: s.Gate, order: s.Order, opened: map[string]bool{}}
	}
	mem.BeforeRead = func(p string, off int) {
		if gate != nil {
			gate.before(p, off)
		}
		perturb(s.Seed, 1, atomic.AddInt64(&rn, 1))
	}
	var nl h.NotifyLog
	var hn, nn int64
	var gatePair atomic.Pointer[h.Pair]
	opt := fsutil.ReceiveOpt{
		ContentHasher: func(st *types.Stat) (hash.Hash, error) {
			k := atomic.AddInt64(&hn, 1)
			if s.HashGate > 0 && k == 1 {
				if p := gatePair.Load(); p != nil {
					for i := 0; i < 400 && p.R.SendCount() < s.HashGate; i++ {
						time.Sleep(time.Millisecond)
					}
				}
			}
			perturb(s.Seed, 2, k)
			return h.Hasher(st)
		},
		NotifyHashed: func(k fsutil.ChangeKind, p string, fi os.FileInfo, err error) error {
			perturb(s.Seed, 3, atomic.AddInt64(&nn, 1))
			return nl.Fn(k, p, fi, err)
		},
	}
	// progress callbacks written the way the repository's own tests write them:
	// plain variables, no locking. The library calls each of them from one place at
	// a time; if it ever did not, the race detector reports these writes.
	var sendProgress, recvProgress, sendCalls, recvCalls int
	opt.ProgressCb = func(n int, last bool) {
		recvProgress = n
		recvCalls++
		perturb(s.Seed, 11, int64(recvCalls))
	}
	sendProg := func(n int, last bool) {
		sendProgress = n
		sendCalls++
		perturb(s.Seed, 10, int64(sendCalls))
	}
	defer func() { _, _ = sendProgress, recvProgress }()
	// (every other schedule only: the callbacks pace the sender, which hides stalls
	// that need the announcements to run far ahead of the content)
	if s.Seed%2 == 1 {
		opt.ProgressCb, sendProg = nil, nil
	}
	res := h.RunSync(mem, dstDir, h.SyncOpt{Capacity: s.Capacity, Recv: opt, SendProgFn: sendProg, Setup: func(p *h.Pair) {
		gatePair.Store(p)
		p.S.BeforeSend = func(n int, _ *types.Packet) error { perturb(s.Seed, 4, int64(n)); return nil }
		p.S.BeforeRecv = func(n int) error { perturb(s.Seed, 5, int64(n)); return nil }
		p.R.BeforeSend = func(n int, _ *types.Packet) error { perturb(s.Seed, 6, int64(n)); return nil }
		p.R.BeforeRecv = func(n int) error { perturb(s.Seed, 7, int64(n)); return nil }
		// after a packet was handed to the stream but before SendMsg returns to its
		// caller: the peer can already react to it
		p.R.AfterSend = func(n int, pk *types.Packet) {
			perturb(s.Seed, 8, int64(n))
			if (uint32(n)*2654435761^s.Seed)%7 == 0 {
				time.Sleep(1500 * time.Microsecond)
			}
		}
		p.S.AfterSend = func(n int, pk *types.Packet) {
			perturb(s.Seed, 9, int64(n))
			if (uint32(n)*2654435761^s.Seed)%23 == 0 {
				time.Sleep(800 * time.Microsecond)
			}
		}
	}})
	out := &c08Outcome{}
	if res.Stuck != "" {
		out.Err = "stuck"
		out.Dump = res.Stuck
		if len(out.Dump) > 6000 {
			out.Dump = out.Dump[:6000] + "..."
		}
		return out, nil
	}
	if res.SendErr != nil || res.RecvErr != nil {
		out.Err = fmt.Sprintf("send=%v recv=%v", res.SendErr, res.RecvErr)
		return out, nil
	}
	out.Overlaps = append(res.Pair.S.GetOverlaps(), res.Pair.R.GetOverlaps()...)
	after, err := h.Snapshot(dstDir)
	if err != nil {
		return nil, h.Infra(err)
	}
	// classification of identity for the timing-dependent hard-link exception
	o := &resyncObs{before: before, annIdx: map[string]*types.Stat{}, destStat: map[string]*types.Stat{}, may: map[string]bool{}, changed: map[string]bool{}, unchanged: map[string]bool{}}
	o.announced = mem.Stats()
	for _, st := range o.announced {
		o.annIdx[st.Path] = st
	}
	o.classify(0)
	// canonical snapshot: everything but inode numbers, ctime, and mtimes of pre-existing directories
	var sb strings.Builder
	for _, p := range after.Paths() {
		e := after[p]
		mt := e.Mtime
		if b, ok := before[p]; ok && e.Kind == h.KDir && b.Kind == h.KDir && b.Ino == e.Ino {
			mt = 0
		}
		fmt.Fprintf(&sb, "%s|%v|%o|%d:%d|%d|%s|%s|%d:%d|%d\n", p, e.Kind, e.Perm, e.Uid, e.Gid, e.Size, e.Sha, e.Target, e.Major, e.Minor, mt)
	}
	fmt.Fprintf(&sb, "groups=%v\n", partitionOf(after))
	out.Snap = sb.String()
	log := res.Pair.Log()
	var reqs []string
	for _, r := range h.From(log, "R") {
		if r.Type == "REQ" && int(r.ID) < len(o.announced) {
			if p := o.announced[r.ID].Path; !o.may[p] {
				reqs = append(reqs, p)
			}
		}
	}
	sort.Strings(reqs)
	out.Reqs = strings.Join(reqs, "\n")
	var notes []string
	for _, n := range nl.Snapshot() {
		if !o.may[n.Path] {
			notes = append(notes, n.Kind+" "+n.Path+" "+n.Digest)
		}
	}
	sort.Strings(notes)
	out.Notes = strings.Join(notes, "\n")
	// interleaving observed on the wire?
	last := int64(-1)
	open := map[uint32]bool{}
	for _, r := range h.From(log, "S") {
		if r.Type != "DATA" {
			continue
		}
		if r.DataLen == 0 {
			delete(open, r.ID)
			continue
		}
		open[r.ID] = true
		if last >= 0 && int64(r.ID) != last && open[uint32(last)] {
			out.Interleav = true
		}
		last = int64(r.ID)
	}
	return out, nil
}

func firstLineDiff(a, b string) string {
	al, bl := strings.Split(a, "\n"), strings.Split(b, "\n")
	for i := 0; i < len(al) || i < len(bl); i++ {
		var x, y string
		if i < len(al) {
			x = al[i]
		}
		if i < len(bl) {
			y = bl[i]
		}
		if x != y {
			return fmt.Sprintf("line %d: %q vs %q", i, x, y)
		}
	}
	return ""
}

func c08Check(env *h.Env, c *c08Case) error {
	tree := c08Tree(c)
	var ref *c08Outcome
	inter := false
	for i, s := range c.Schedules {
		out, err := c08RunOne(env, c, tree, i, s)
		if err != nil {
			return err
		}
		what := fmt.Sprintf("schedule %d (capacity %d, GOMAXPROCS %d, seed %d, gate %d)", i, s.Capacity, s.Procs, s.Seed, s.Gate)
		if out.Err == "stuck" {
			// a fault-free transfer that never terminates under this schedule
			return fmt.Errorf("%s: the fault-free transfer never terminated (every goroutine blocked):\n%s", what, out.Dump)
		}
		if out.Err != "" {
			return fmt.Errorf("%s: fault-free transfer failed: %s", what, out.Err)
		}
		if len(out.Overlaps) > 0 {
			return fmt.Errorf("%s: two stream calls were in flight on one endpoint at once:\n%s", what, out.Overlaps[0])
		}
		if out.Interleav {
			inter = true
		}
		if ref == nil {
			ref = out
			continue
		}
		if out.Snap != ref.Snap {
			return fmt.Errorf("%s: final destination differs from schedule 0: %s", what, firstLineDiff(ref.Snap, out.Snap))
		}
		if out.Reqs != ref.Reqs {
			return fmt.Errorf("%s: set of content requests differs from schedule 0: %s", what, firstLineDiff(ref.Reqs, out.Reqs))
		}
		if out.Notes != ref.Notes {
			return fmt.Errorf("%s: set of change notifications (with digests) differs from schedule 0: %s", what, firstLineDiff(ref.Notes, out.Notes))
		}
	}
	if inter {
		env.Class("interleaved-on-wire")
		env.NonTrivial()
	}
	env.R.CountN(len(c.Schedules), 0, "schedule-runs")
	return nil
}

func TestC08(t *testing.T) {
	r := h.NewRunner("C08")
	defer r.Finish(t)
	// A common descriptor limit (many systems default to 1024; 256 here, as the cases
	// have hundreds of files rather than thousands): how many files are in flight
	// depends on the schedule, so a transfer that holds one descriptor per file in
	// flight succeeds under one schedule and fails under another.
	var lim syscall.Rlimit
	if syscall.Getrlimit(syscall.RLIMIT_NOFILE, &lim) == nil && lim.Cur > 256 {
		low := lim
		low.Cur = 256
		if syscall.Setrlimit(syscall.RLIMIT_NOFILE, &low) == nil {
			defer syscall.Setrlimit(syscall.RLIMIT_NOFILE, &lim)
		}
	}
	h.RunWith(t, r, "", genC08, c08Check)
	if t.Failed() {
		return
	}
	t.Run("walkrace", func(t *testing.T) {
		h.ScaleChecks(25, 1, func() { h.RunWith(t, r, "walkrace", genC08Walk, c08WalkCheck) })
	})
}

// ---------------------------------------------------------------------------
// sub-run "walkrace": the receiver walks the old destination while its own
// disk writer already rewrites it. Small trees whose destination holds
// directories at paths where the source has something else (fifo, symlink,
// symlink loop, device, file, nothing); every schedule perturbs the on-disk
// walkers through the verif-tagged hook after each walk callback, and steered
// schedules hold the destination walker right after it reported such a
// directory until the writer has replaced it (bounded). Oracle as above: every
// schedule terminates, succeeds, and ends in the same destination.

type c08WalkSched struct {
	Capacity int    `json:"capacity"`
	Procs    int    `json:"procs"`
	Seed     uint32 `json:"seed"`
	Steer    bool   `json:"steer"`
}

type c08WalkCase struct {
	Src       *h.Tree        `json:"src"`
	Dst       *h.Tree        `json:"dst"`
	MemSrc    bool           `json:"memsrc"`
	Schedules []c08WalkSched `json:"schedules"`
}

var c08WalkCfg = h.TreeCfg{
	MaxEntries: 7, MaxDepth: 3, Names: []string{"a", "b", "d", "a-b", "c"},
	Kinds:      []h.Kind{h.KFile, h.KFile, h.KSymlink, h.KSymlink, h.KFifo, h.KFifo, h.KChar, h.KSocket},
	SymTargets: []string{"a", "b", "d", "../d", ".", "a/b", "/nonexistent"},
}

func genC08Walk(t *rapid.T) *c08WalkCase {
	c := &c08WalkCase{Src: h.GenTree(t, c08WalkCfg, "src"), MemSrc: rapid.Bool().Draw(t, "memsrc")}
	if rapid.IntRange(0, 3).Draw(t, "dstkind") == 0 {
		d := c.Src.Clone()
		for i := 0; i < rapid.IntRange(1, 4).Draw(t, "nedits"); i++ {
			d, _ = h.GenEdit(t, d, fmt.Sprintf("e%d", i), c08WalkCfg.Names)
		}
		c.Dst = d
	} else {
		c.Dst = h.GenTree(t, c08WalkCfg, "dst")
	}
	h.AlignIdentical(c.Src, c.Dst, false, 0, 0)
	m := 4
	if os.Getenv("VERIF_TIER") == "thorough" {
		m = 8
	}
	for i := 0; i < m; i++ {
		li := fmt.Sprintf("s%d.", i)
		c.Schedules = append(c.Schedules, c08WalkSched{
			Capacity: rapid.SampledFrom([]int{0, 1, 8}).Draw(t, li+"cap"),
			Procs:    rapid.SampledFrom([]int{1, 2, 16}).Draw(t, li+"procs"),
			Seed:     uint32(rapid.IntRange(1, 1<<30).Draw(t, li+"seed")),
			Steer:    i%2 == 1 || rapid.Bool().Draw(t, li+"steer"),
		})
	}
	return c
}

// steerable: directories of the old destination at paths where the source has
// no directory.
func c08Steerable(c *c08WalkCase) []string {
	si := c.Src.Index()
	var out []string
	for _, n := range c.Dst.Nodes {
		if n.Kind != h.KDir {
			continue
		}
		if sn := si[n.Path]; sn == nil || sn.Kind != h.KDir {
			out = append(out, n.Path)
		}
	}
	return out
}

func c08WalkRunOne(env *h.Env, c *c08WalkCase, srcDir string, idx int, s c08WalkSched) (*c08Outcome, int, error) {
	dstDir := filepath.Join(env.Scratch, fmt.Sprintf("wdst%d", idx))
	if err := os.Mkdir(dstDir, 0o755); err != nil {
		return nil, 0, h.Infra(err)
	}
	defer h.RemoveAllForce(dstDir)
	if err := h.Materialise(c.Dst, dstDir); err != nil {
		return nil, 0, h.Infra(err)
	}
	before, err := h.Snapshot(dstDir)
	if err != nil {
		return nil, 0, h.Infra(err)
	}
	old := runtime.GOMAXPROCS(s.Procs)
	defer runtime.GOMAXPROCS(old)
	var src fsutil.FS
	if c.MemSrc {
		src = &h.MemFS{T: c.Src, LinkSizeFull: true}
	} else {
		if src, err = fsutil.NewFS(srcDir); err != nil {
			return nil, 0, h.Infra(err)
		}
	}
	steer := map[string]bool{}
	for _, p := range c08Steerable(c) {
		steer[p] = true
	}
	var wn, overtaken int64
	prefix := dstDir + string(filepath.Separator)
	fsutil.VerifAfterWalkEntry = func(full string, isDir bool) {
		perturb(s.Seed, 10, atomic.AddInt64(&wn, 1))
		if !s.Steer || !isDir || !strings.HasPrefix(full, prefix) || !steer[full[len(prefix):]] {
			return
		}
		// hold the destination walker between "directory reported" and
		// "directory opened" until the writer has dealt with that path
		for i := 0; i < 50; i++ {
			if fi, err := os.Lstat(full); err != nil || !fi.IsDir() {
				atomic.AddInt64(&overtaken, 1)
				return
			}
			time.Sleep(50 * time.Microsecond)
		}
	}
	defer func() { fsutil.VerifAfterWalkEntry = nil }()
	res := h.RunSync(src, dstDir, h.SyncOpt{Capacity: s.Capacity, Setup: func(p *h.Pair) {
		p.S.BeforeSend = func(n int, _ *types.Packet) error { perturb(s.Seed, 4, int64(n)); return nil }
		p.R.BeforeRecv = func(n int) error { perturb(s.Seed, 7, int64(n)); return nil }
	}})
	fsutil.VerifAfterWalkEntry = nil
	out := &c08Outcome{}
	if res.Stuck != "" {
		out.Err = "stuck"
		out.Dump = res.Stuck
		if len(out.Dump) > 6000 {
			out.Dump = out.Dump[:6000] + "..."
		}
		return out, int(overtaken), nil
	}
	if res.SendErr != nil || res.RecvErr != nil {
		out.Err = fmt.Sprintf("send=%v recv=%v", res.SendErr, res.RecvErr)
		return out, int(overtaken), nil
	}
	after, err := h.Snapshot(dstDir)
	if err != nil {
		return nil, 0, h.Infra(err)
	}
	var sb strings.Builder
	for _, p := range after.Paths() {
		e := after[p]
		mt := e.Mtime
		if b, ok := before[p]; ok && e.Kind == h.KDir && b.Kind == h.KDir {
			mt = 0
		}
		fmt.Fprintf(&sb, "%s|%v|%o|%d:%d|%d|%s|%s|%d:%d|%d\n", p, e.Kind, e.Perm, e.Uid, e.Gid, e.Size, e.Sha, e.Target, e.Major, e.Minor, mt)
	}
	fmt.Fprintf(&sb, "groups=%v\n", partitionOf(after))
	out.Snap = sb.String()
	return out, int(overtaken), nil
}

func c08WalkCheck(env *h.Env, c *c08WalkCase) error {
	srcDir := filepath.Join(env.Scratch, "wsrc")
	if !c.MemSrc {
		if err := os.Mkdir(srcDir, 0o755); err != nil {
			return h.Infra(err)
		}
		if err := h.Materialise(c.Src, srcDir); err != nil {
			return h.Infra(err)
		}
	}
	steerable := c08Steerable(c)
	var ref *c08Outcome
	overtaken := 0
	for i, s := range c.Schedules {
		out, ov, err := c08WalkRunOne(env, c, srcDir, i, s)
		if err != nil {
			return err
		}
		overtaken += ov
		what := fmt.Sprintf("schedule %d (capacity %d, GOMAXPROCS %d, seed %d, steered %v; destination directories the source replaces: %q)", i, s.Capacity, s.Procs, s.Seed, s.Steer, steerable)
		if out.Err == "stuck" {
			return fmt.Errorf("%s: the fault-free transfer never terminated:\n%s", what, out.Dump)
		}
		if out.Err != "" {
			return fmt.Errorf("%s: fault-free transfer failed: %s", what, out.Err)
		}
		if ref == nil {
			ref = out
			continue
		}
		if out.Snap != ref.Snap {
			return fmt.Errorf("%s: final destination differs from schedule 0: %s", what, firstLineDiff(ref.Snap, out.Snap))
		}
	}
	env.Class("walkrace")
	if len(steerable) > 0 {
		env.Class("walkrace-steerable")
		env.NonTrivial()
	}
	if overtaken > 0 {
		env.Class("walkrace-writer-overtook-walker")
	}
	env.R.CountN(len(c.Schedules), 0, "schedule-runs")
	return nil
}
