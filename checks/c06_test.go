package checks

import (
	"bytes"
	"context"
	"encoding/binary"
	"errors"
	"fmt"
	"github.com/tonistiigi/fsutil/util"
	"io"
	"os"
	"path"
	"path/filepath"
	"sort"
	"strings"
	"sync"
	"sync/atomic"
	"testing"

	"github.com/tonistiigi/fsutil"
	"github.com/tonistiigi/fsutil/types"
	"pgregory.net/rapid"

	h "verif/harness"
)

// ---------------------------------------------------------------------------
// C06: the sender speaks the documented protocol to any conforming receiver

type c06Case struct {
	Tree     *h.Tree     `json:"tree"`
	Many     int         `json:"many"` // extra flat files many/f0000.. (large fan-out)
	ManySize int         `json:"manysize"`
	MemSrc   bool        `json:"memsrc"`
	Script   h.ReqScript `json:"script"`
	Capacity int         `json:"capacity"`
	// AbortedBefore: an earlier Send in the same process was cut off in the middle
	// of a file (the stream broke at its n-th DATA packet) right before this run:
	// whatever a failed call leaves behind in process-wide state (buffer pools)
	// must not leak into the next one
	AbortedBefore int `json:"aborted_before,omitempty"`
	// Proto: the sender talks through the library's own length-prefixed byte
	// stream (util.NewProtoStream over pipes); a bridge with an independent
	// framing codec connects it to the reference receiver
	Proto bool `json:"proto,omitempty"`
	// Subs: the view is a composite (SubDirFS) of copies of the tree under these
	// directory names, handed over in this order
	Subs []string `json:"subs,omitempty"`
}

var c06TreeCfg = h.TreeCfg{
	MaxEntries: 12, MaxDepth: 3, Names: []string{"a", "b", "ab", "a-b", "a.b", "c", "a0", "d", "é", "x y"},
	Kinds:  []h.Kind{h.KFile, h.KFile, h.KFile, h.KFile, h.KSymlink, h.KFifo, h.KChar, h.KSocket},
	Xattrs: true, Hardlinks: true, BigFiles: true, BadUTF8: true,
}

func genC06(t *rapid.T) *c06Case {
	c := &c06Case{Tree: h.GenTree(t, c06TreeCfg, "t")}
	if rapid.IntRange(0, 4).Draw(t, "many") == 0 {
		c.Many = rapid.SampledFrom([]int{20, 133, 140, 200, 300}).Draw(t, "nmany")
		c.ManySize = rapid.SampledFrom([]int{0, 1, 10, 2000}).Draw(t, "manysize")
	}
	c.MemSrc = rapid.Bool().Draw(t, "memsrc")
	c.Capacity = rapid.SampledFrom([]int{0, 0, 1, 8, 64}).Draw(t, "cap")
	if c.Many == 0 && rapid.IntRange(0, 5).Draw(t, "composite") == 0 {
		c.Subs = rapid.Permutation([]string{"zeta", "alpha", "m", "a-b", "a"}).Draw(t, "subs")[:rapid.IntRange(1, 3).Draw(t, "nsubs")]
	}
	tr := c06Tree(c)
	c.Script.ReqLinks = rapid.Bool().Draw(t, "reqlinks")
	nreq := 0
	for _, n := range tr.Nodes {
		if (n.Kind == h.KFile && (n.LinkTo == "" || c.Script.ReqLinks)) || n.Kind == h.KSocket {
			nreq++
		}
	}
	sc := &c.Script
	sc.Eager = rapid.Bool().Draw(t, "eager")
	if nreq > 0 {
		switch rapid.IntRange(0, 3).Draw(t, "ordermode") {
		case 0: // all ascending
			for i := 0; i < nreq; i++ {
				sc.Order = append(sc.Order, i)
			}
		case 1: // all descending
			for i := nreq - 1; i >= 0; i-- {
				sc.Order = append(sc.Order, i)
			}
		case 2: // random permutation of a subset
			perm := rapid.Permutation(seq(nreq)).Draw(t, "perm")
			k := rapid.IntRange(0, nreq).Draw(t, "subset")
			sc.Order = perm[:k]
		case 3: // single
			sc.Order = []int{rapid.IntRange(0, nreq-1).Draw(t, "one")}
		}
	}
	if rapid.IntRange(0, 4).Draw(t, "illegal") == 0 {
		sc.Illegal = rapid.SampledFrom([]string{"unknown", "nonfile", "duplicate"}).Draw(t, "illegalkind")
		sc.IllegalAfter = rapid.IntRange(0, len(sc.Order)).Draw(t, "illegalafter")
	}
	if rapid.IntRange(0, 5).Draw(t, "slow") == 0 {
		sc.ReadDelayUS = rapid.SampledFrom([]int{50, 200}).Draw(t, "delay")
	}
	// (with an illegal request the call fails while the single-threaded peer may be
	// blocked writing: that is C04's listed mutual-send finding, not judged here)
	// and only below the sender's pipeline depth (128+4): a peer that stops reading
	// while it has more requests outstanding than that blocks both sides by design)
	if sc.Eager && sc.Illegal == "" && nreq <= 100 && rapid.IntRange(0, 2).Draw(t, "inline") == 0 {
		sc.Inline = true
	}
	if rapid.IntRange(0, 3).Draw(t, "aborted") == 0 {
		c.AbortedBefore = rapid.IntRange(1, 5).Draw(t, "abortat")
	}
	if rapid.IntRange(0, 3).Draw(t, "proto") == 0 {
		c.Proto = true
		// file sizes whose last DATA frame comes out at the pooled buffer size, give or take
		for i := range c.Tree.Nodes {
			if n := &c.Tree.Nodes[i]; n.Kind == h.KFile && n.LinkTo == "" && rapid.Bool().Draw(t, fmt.Sprintf("edge%d", i)) {
				n.Size = rapid.SampledFrom([]int{0, 32768}).Draw(t, fmt.Sprintf("edgebase%d", i)) + rapid.IntRange(32748, 32772).Draw(t, fmt.Sprintf("edgesize%d", i))
			}
		}
	}
	return c
}

// c06SendOverProtoStream runs Send over util.NewProtoStream on two pipes and
// bridges the byte stream to the harness pair with its own framing codec
// (4-byte big-endian length, then the packet).
func c06SendOverProtoStream(pair *h.Pair, f fsutil.FS, prog func(int, bool)) (err error) {
	toBridgeR, toBridgeW := io.Pipe()
	// towards the sender a kernel pipe: it buffers, so a burst of requests is
	// there to be read at once (a reader that reads ahead must keep what it read)
	toSenderR, toSenderW, perr := os.Pipe()
	if perr != nil {
		return perr
	}
	defer toSenderR.Close()
	stream := util.NewProtoStream(pair.S.Context(), toSenderR, toBridgeW)
	var bw sync.WaitGroup
	bw.Add(1)
	go func() { // sender -> receiver
		defer bw.Done()
		var hd [4]byte
		for {
			if _, e := io.ReadFull(toBridgeR, hd[:]); e != nil {
				return
			}
			body := make([]byte, binary.BigEndian.Uint32(hd[:]))
			if _, e := io.ReadFull(toBridgeR, body); e != nil {
				return
			}
			var p types.Packet
			if e := p.UnmarshalVT(body); e != nil {
				pair.S.Break(fmt.Errorf("verif: undecodable frame from the sender: %v", e))
				toBridgeR.CloseWithError(e)
				return
			}
			if e := pair.S.SendMsg(&p); e != nil {
				toBridgeR.CloseWithError(e)
				return
			}
		}
	}()
	go func() { // receiver -> sender
		for {
			var p types.Packet
			if e := pair.S.RecvMsg(&p); e != nil {
				toSenderW.Close()
				return
			}
			body, _ := p.MarshalVT()
			var hd [4]byte
			binary.BigEndian.PutUint32(hd[:], uint32(len(body)))
			if _, e := toSenderW.Write(append(hd[:], body...)); e != nil {
				return
			}
		}
	}()
	func() {
		defer func() {
			if r := recover(); r != nil {
				err = fmt.Errorf("Send panicked: %v", r)
			}
		}()
		err = fsutil.Send(pair.S.Context(), stream, f, prog)
	}()
	toBridgeW.Close()
	bw.Wait()
	return err
}

// c06AbortedSend runs a Send that fails in the middle of file data: three
// 70 KB files, all requested, the stream breaks at the n-th DATA packet (odd n:
// a source read error instead). Its outcome is not judged here (C04 does that).
func c06AbortedSend(n int) {
	tr := &h.Tree{}
	for i := 0; i < 3; i++ {
		tr.Nodes = append(tr.Nodes, h.Node{Path: fmt.Sprintf("p%d", i), Kind: h.KFile, Perm: 0o644, Size: 70000, Seed: uint32(90 + i)})
	}
	tr.Normalize()
	mem := &h.MemFS{T: tr, LinkSizeFull: true}
	if n%2 == 1 {
		mem.ReadErrPath, mem.ReadErrAt, mem.ReadErr = "p1", 40000, errors.New("verif: injected read error")
	}
	pair := h.NewPair(context.Background(), 1)
	var data int32
	pair.S.BeforeSend = func(_ int, p *types.Packet) error {
		if p.Type == types.PACKET_DATA && n%2 == 0 && int(atomic.AddInt32(&data, 1)) == n {
			pair.S.Break(errors.New("verif: stream broken"))
			pair.R.Break(errors.New("verif: stream broken"))
			return errors.New("verif: stream broken")
		}
		return nil
	}
	pair.S.AfterSend = func(_ int, p *types.Packet) {
		if p.Type == types.PACKET_ERR {
			// a receiver closes the stream when it is told about an error
			pair.S.Break(errors.New("verif: receiver closed after ERR"))
			pair.R.Break(errors.New("verif: receiver closed after ERR"))
		}
	}
	var wg sync.WaitGroup
	wg.Add(2)
	go func() {
		defer wg.Done()
		err := fsutil.Send(pair.S.Context(), pair.S, mem, nil)
		pair.S.Returned(err)
		pair.R.Break(errors.New("verif: sender gone")) // release the reference receiver at once
	}()
	go func() {
		defer wg.Done()
		h.RunRefReceiver(pair.R, h.ReqScript{Order: []int{0, 1, 2}, Eager: true})
		pair.R.Returned(nil)
	}()
	done := make(chan struct{})
	go func() { wg.Wait(); close(done) }()
	if dump := h.WaitOrStuck(done, pair); dump != "" {
		pair.S.Break(nil)
		pair.R.Break(nil)
		pair.S.Cancel()
		pair.R.Cancel()
		<-done
	}
	pair.S.Cancel()
	pair.R.Cancel()
}

func seq(n int) []int {
	out := make([]int, n)
	for i := range out {
		out[i] = i
	}
	return out
}

func c06Tree(c *c06Case) *h.Tree {
	tr := c.Tree.Clone()
	if c.Many > 0 {
		if _, ok := tr.Index()["many"]; !ok {
			tr.Nodes = append(tr.Nodes, h.Node{Path: "many", Kind: h.KDir, Perm: 0o755, Mtime: 5})
			for i := 0; i < c.Many; i++ {
				tr.Nodes = append(tr.Nodes, h.Node{Path: fmt.Sprintf("many/f%04d", i), Kind: h.KFile, Perm: 0o644, Mtime: 7, Seed: uint32(1000 + i), Size: c.ManySize})
			}
		}
		tr.Normalize()
	}
	return tr
}

func c06Check(env *h.Env, c *c06Case) error {
	tr := c06Tree(c)
	var f fsutil.FS
	var want []walked
	if c.MemSrc {
		// sockets cannot be opened through a synthetic source: model them as empty files
		f = &h.MemFS{T: tr, LinkSizeFull: true}
		for i := range tr.Nodes {
			st := tr.Nodes[i].Stat()
			if tr.Nodes[i].Kind == h.KFile && tr.Nodes[i].LinkTo != "" {
				st.Size = int64(tr.Index()[tr.Nodes[i].LinkTo].Size)
			}
			want = append(want, walked{st.Path, st})
		}
	} else {
		srcDir := filepath.Join(env.Scratch, "src")
		if err := os.Mkdir(srcDir, 0o755); err != nil {
			return h.Infra(err)
		}
		if err := h.Materialise(tr, srcDir); err != nil {
			return h.Infra(err)
		}
		snap, err := h.Snapshot(srcDir)
		if err != nil {
			return h.Infra(err)
		}
		want = expectWalk(snap, func(string) bool { return true })
		if f, err = fsutil.NewFS(srcDir); err != nil {
			return h.Infra(err)
		}
	}
	content := map[string][]byte{}
	for _, n := range tr.Nodes {
		if n.Kind == h.KFile && n.LinkTo == "" {
			content[n.Path] = h.Content(n.Seed, n.Size)
		}
	}
	for _, n := range tr.Nodes {
		if n.Kind == h.KFile && n.LinkTo != "" {
			content[n.Path] = content[n.LinkTo] // a link member is a regular file with its group's bytes
		}
	}
	if len(c.Subs) > 0 {
		env.Class("composite-view")
		var dirs []fsutil.Dir
		for _, name := range c.Subs {
			dirs = append(dirs, fsutil.Dir{Stat: &types.Stat{Path: name, Mode: uint32(os.ModeDir | 0o755)}, FS: f})
		}
		cf, err := fsutil.SubDirFS(dirs)
		if err != nil {
			return h.Infra(err)
		}
		names := append([]string(nil), c.Subs...)
		sort.Strings(names)
		var w2 []walked
		content2 := map[string][]byte{}
		for _, name := range names {
			w2 = append(w2, walked{name, &types.Stat{Path: name, Mode: uint32(os.ModeDir | 0o755)}})
			for _, w := range want {
				st := w.Stat.Clone()
				st.Path = name + "/" + st.Path
				if st.Linkname != "" {
					if os.FileMode(st.Mode)&os.ModeSymlink == 0 {
						st.Linkname = name + "/" + st.Linkname
					} else if strings.HasPrefix(st.Linkname, "/") {
						st.Linkname = path.Join("/"+name, st.Linkname)
					}
				}
				w2 = append(w2, walked{st.Path, st})
			}
			for p, b := range content {
				content2[name+"/"+p] = b
			}
		}
		f, want, content = cf, w2, content2
	}

	if c.AbortedBefore > 0 {
		env.Class("after-aborted-send")
		c06AbortedSend(c.AbortedBefore)
	}
	pair := h.NewPair(context.Background(), c.Capacity)
	var sendErr error
	var prog []h.ProgressCall
	var pmu sync.Mutex
	var rr *h.RefRecvResult
	var wg sync.WaitGroup
	wg.Add(2)
	go func() {
		defer wg.Done()
		progFn := func(n int, last bool) {
			pmu.Lock()
			prog = append(prog, h.ProgressCall{N: n, Last: last})
			pmu.Unlock()
		}
		if !c.Proto {
			sendErr = fsutil.Send(pair.S.Context(), pair.S, f, progFn)
			pair.S.Returned(sendErr)
			return
		}
		env.Class("library-byte-stream")
		sendErr = c06SendOverProtoStream(pair, f, progFn)
		pair.S.Returned(sendErr)
	}()
	go func() {
		defer wg.Done()
		rr = h.RunRefReceiver(pair.R, c.Script)
		pair.R.Returned(nil)
	}()
	done := make(chan struct{})
	go func() { wg.Wait(); close(done) }()
	if dump := h.WaitOrStuck(done, pair); dump != "" {
		pair.S.Break(nil)
		pair.R.Break(nil)
		pair.S.Cancel()
		pair.R.Cancel()
		<-done
		return fmt.Errorf("Send never returned against a conforming receiver (script %+v); blocked goroutines:\n%s", c.Script, dump)
	}
	pair.S.Cancel()
	pair.R.Cancel()

	illegal := rr.IllegalID >= 0
	if illegal {
		env.Class("illegal-" + c.Script.Illegal)
		env.NonTrivial()
	}
	if len(rr.Requested) > 132 {
		env.Class("burst>132")
		env.NonTrivial()
	}
	if c.Script.Eager {
		env.Class("eager")
	}
	if c.Script.Inline {
		env.Class("single-threaded-receiver")
	}
	multi := 0
	for _, id := range rr.Requested {
		if int(id) < len(rr.Stats) && rr.Stats[id].Size > 32768 {
			multi++
		}
	}
	if len(rr.Requested) >= 2 && multi >= 1 {
		env.NonTrivial()
		env.Class("multichunk-requested")
	}
	env.Note("requested", len(rr.Requested))
	env.Note("stats", len(rr.Stats))

	if rr.ProtoErr != "" {
		return fmt.Errorf("protocol: %s", rr.ProtoErr)
	}
	if !illegal && sendErr != nil {
		return fmt.Errorf("Send failed against a conforming receiver: %v (script %+v, %d STATs seen, %d requests sent)", sendErr, c.Script, len(rr.Stats), len(rr.Requested))
	}
	// STAT sequence = the view's listing, ascending, then exactly one marker
	var got []walked
	for _, st := range rr.Stats {
		got = append(got, walked{st.Path, st})
	}
	if !illegal || rr.StatsDone {
		if err := cmpWalk("STAT sequence", got, want); err != nil {
			return err
		}
		if !rr.StatsDone && sendErr == nil {
			return fmt.Errorf("no end-of-stats marker was sent")
		}
	} else {
		// the call failed while the listing was still going out: what was announced must be a prefix
		if len(got) > len(want) {
			return fmt.Errorf("more STATs (%d) than entries (%d)", len(got), len(want))
		}
		if err := cmpWalk("STAT prefix", got, want[:len(got)]); err != nil {
			return err
		}
	}
	// DATA per requested id
	if len(rr.Unrequested) > 0 {
		return fmt.Errorf("DATA for ids that were never requested: %v", rr.Unrequested)
	}
	for id, n := range rr.AfterClose {
		if n > 0 {
			return fmt.Errorf("id %d: %d DATA packets after its terminator", id, n)
		}
	}
	if !illegal {
		if sendErr != nil {
			return fmt.Errorf("Send failed against a conforming receiver: %v (script %+v)", sendErr, c.Script)
		}
		for _, id := range rr.Requested {
			st := rr.Stats[id]
			if rr.Closed[id] != 1 {
				return fmt.Errorf("id %d (%s): %d terminators, want exactly 1", id, st.Path, rr.Closed[id])
			}
			wantData := content[st.Path] // sockets and unknown: empty
			if !bytes.Equal(rr.Data[id], wantData) {
				return fmt.Errorf("id %d (%s): DATA payloads concatenate to %d bytes, file has %d (first difference at %d)", id, st.Path, len(rr.Data[id]), len(wantData), firstDiff(rr.Data[id], wantData))
			}
		}
		if !rr.FinSent {
			return fmt.Errorf("reference receiver never reached FIN (requested %d, closed %d)", len(rr.Requested), len(rr.Closed))
		}
		if rr.FinEchoes != 1 {
			return fmt.Errorf("FIN echoed %d times, want exactly once", rr.FinEchoes)
		}
		if rr.PacketsAfterFin != 0 {
			return fmt.Errorf("%d packets after the FIN echo", rr.PacketsAfterFin)
		}
	} else {
		if sendErr == nil {
			return fmt.Errorf("illegal request (%s id %d) but Send returned success", c.Script.Illegal, rr.IllegalID)
		}
		iid := uint32(rr.IllegalID)
		switch c.Script.Illegal {
		case "unknown", "nonfile":
			if len(rr.Data[iid]) > 0 || rr.Closed[iid] > 0 {
				return fmt.Errorf("DATA was sent for illegal id %d (%s)", iid, c.Script.Illegal)
			}
		case "duplicate":
			if rr.Closed[iid] > 1 {
				return fmt.Errorf("duplicate request for id %d produced a second DATA run", iid)
			}
			if st := rr.Stats[iid]; len(rr.Data[iid]) > len(content[st.Path]) {
				return fmt.Errorf("duplicate request for id %d: %d bytes sent for a %d-byte file", iid, len(rr.Data[iid]), len(content[st.Path]))
			}
		}
		// whatever was completed before the failure must be exact
		for _, id := range rr.Requested {
			if rr.Closed[id] == 1 && id != iid {
				if st := rr.Stats[id]; !bytes.Equal(rr.Data[id], content[st.Path]) {
					return fmt.Errorf("id %d (%s): terminated with wrong content", id, st.Path)
				}
			}
		}
	}
	// progress: non-decreasing, exactly one final call and it is the last
	lastCount := 0
	for i, p := range prog {
		if i > 0 && p.N < prog[i-1].N {
			return fmt.Errorf("progress went backwards: %d after %d", p.N, prog[i-1].N)
		}
		if p.Last {
			lastCount++
			if i != len(prog)-1 {
				return fmt.Errorf("progress: final call is not the last call")
			}
		}
	}
	if lastCount != 1 {
		return fmt.Errorf("progress: %d calls with last=true, want exactly 1", lastCount)
	}
	if ov := pair.S.GetOverlaps(); len(ov) > 0 {
		return fmt.Errorf("concurrent stream calls on the sender endpoint: %s", ov[0])
	}
	return nil
}

func firstDiff(a, b []byte) int {
	for i := 0; i < len(a) && i < len(b); i++ {
		if a[i] != b[i] {
			return i
		}
	}
	if len(a) < len(b) {
		return len(a)
	}
	return len(b)
}

var _ = types.PACKET_STAT

func TestC06(t *testing.T) {
	h.Run(t, "C06", genC06, c06Check)
}
