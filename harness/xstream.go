package harness

import (
	"context"
	"crypto/sha256"
	"encoding/hex"
	"errors"
	"fmt"
	"io"
	"runtime"
	"sync"
	"sync/atomic"

	"github.com/tonistiigi/fsutil/types"
)

// Rec is one packet in the harness's complete, ordered log.
type Rec struct {
	Seq       int64       `json:"seq"`
	From      string      `json:"from"` // "S" (sender endpoint) or "R" (receiver endpoint)
	Type      string      `json:"type"`
	ID        uint32      `json:"id"`
	Stat      *types.Stat `json:"-"`
	Path      string      `json:"path,omitempty"`
	HasStat   bool        `json:"hasstat,omitempty"`
	Data      []byte      `json:"-"`
	DataLen   int         `json:"len"`
	DataSha   string      `json:"-"`
	Delivered int64       `json:"delivered"` // seq at which the peer's RecvMsg returned it (0 = never)
	enc       []byte
}

// Pair is a bidirectional in-process stream with a log, capacity, teardown
// rules of the transport model and per-endpoint hooks.
type Pair struct {
	S, R *End

	mu  sync.Mutex
	seq int64
	log []*Rec

	KeepData bool // keep payload bytes in the log (default true)
	Busy     func() bool
}

type dirq struct {
	ch         chan *Rec
	closed     chan struct{} // writer closed its side
	closeErr   error
	once       sync.Once
	readerGone chan struct{} // the reading side's call has returned
	once2      sync.Once
}

func (d *dirq) readerGoneCh() chan struct{} { return d.readerGone }

// End is one endpoint. It implements fsutil.Stream.
type End struct {
	Name    string
	pair    *Pair
	ctx     context.Context
	cancel  context.CancelFunc
	out     *dirq
	in      *dirq
	broken  chan struct{} // whole endpoint broken
	brkErr  error
	brkOnce sync.Once

	sendInFlight, recvInFlight int32
	Overlaps                   []string
	ovMu                       sync.Mutex

	sendN, recvN int64

	// hooks, called with the 1-based call index; a non-nil error is returned
	// to the caller instead of performing the operation.
	BeforeSend func(n int, p *types.Packet) error
	BeforeRecv func(n int) error
	// InsteadOfRecv, if it returns an error for the n-th packet that arrived, makes
	// RecvMsg drop that packet and return the error
	InsteadOfRecv func(n int, p *types.Packet) error
	AfterSend     func(n int, p *types.Packet)
	AfterRecv     func(n int, p *types.Packet)
}

var ErrBroken = errors.New("harness: stream broken")
var ErrPeerGone = errors.New("harness: peer has returned")

// NewPair creates a stream pair. Each endpoint gets its own cancellable
// context derived from parent.
func NewPair(parent context.Context, capacity int) *Pair {
	p := &Pair{KeepData: true}
	a := &dirq{ch: make(chan *Rec, capacity), closed: make(chan struct{}), readerGone: make(chan struct{})}
	b := &dirq{ch: make(chan *Rec, capacity), closed: make(chan struct{}), readerGone: make(chan struct{})}
	sc, scancel := context.WithCancel(parent)
	rc, rcancel := context.WithCancel(parent)
	p.S = &End{Name: "S", pair: p, ctx: sc, cancel: scancel, out: a, in: b, broken: make(chan struct{})}
	p.R = &End{Name: "R", pair: p, ctx: rc, cancel: rcancel, out: b, in: a, broken: make(chan struct{})}
	return p
}

func (e *End) Context() context.Context { return e.ctx }

// Cancel cancels the endpoint's context.
func (e *End) Cancel() { e.cancel() }

// CloseSend ends this endpoint's outgoing direction: the peer drains what was
// queued and then sees err (io.EOF if nil).
func (e *End) CloseSend(err error) {
	e.out.once.Do(func() {
		if err == nil {
			err = io.EOF
		}
		e.out.closeErr = err
		close(e.out.closed)
	})
}

// Break makes every blocked and future call on this endpoint fail.
func (e *End) Break(err error) {
	e.brkOnce.Do(func() {
		if err == nil {
			err = ErrBroken
		}
		e.brkErr = err
		close(e.broken)
	})
}

// Returned implements the transport model's rule (iii): the call that owned
// this endpoint has returned with err. The peer drains and then sees EOF (or
// an error), and the peer's sends fail.
func (e *End) Returned(err error) {
	if err == nil {
		e.CloseSend(io.EOF)
	} else {
		e.CloseSend(fmt.Errorf("harness: peer failed: %w", err))
	}
	// peer's sends into our inbound queue must not block forever
	e.in.onceReader()
}

// readerGone is signalled when the reading side of a direction returned.
func (d *dirq) onceReader() {
	d.once2.Do(func() { close(d.readerGoneCh()) })
}

func typeName(t types.Packet_PacketType) string {
	switch t {
	case types.PACKET_STAT:
		return "STAT"
	case types.PACKET_REQ:
		return "REQ"
	case types.PACKET_DATA:
		return "DATA"
	case types.PACKET_FIN:
		return "FIN"
	case types.PACKET_ERR:
		return "ERR"
	}
	return fmt.Sprintf("T%d", int(t))
}

func (e *End) overlap(kind string) {
	buf := make([]byte, 16<<10)
	n := runtime.Stack(buf, false)
	e.ovMu.Lock()
	if len(e.Overlaps) < 4 {
		e.Overlaps = append(e.Overlaps, kind+" overlap on "+e.Name+"\n"+string(buf[:n]))
	}
	e.ovMu.Unlock()
}

func (e *End) SendMsg(m interface{}) error {
	if atomic.AddInt32(&e.sendInFlight, 1) > 1 {
		e.overlap("SendMsg")
	}
	defer atomic.AddInt32(&e.sendInFlight, -1)
	pk, ok := m.(*types.Packet)
	if !ok {
		return fmt.Errorf("harness: SendMsg of %T", m)
	}
	n := int(atomic.AddInt64(&e.sendN, 1))
	if e.BeforeSend != nil {
		if err := e.BeforeSend(n, pk); err != nil {
			return err
		}
	}
	// encode now: the caller may reuse the packet after SendMsg returns
	enc, err := pk.MarshalVT()
	if err != nil {
		return err
	}
	var cp types.Packet
	if err := cp.UnmarshalVT(enc); err != nil {
		return fmt.Errorf("harness: re-decode: %w", err)
	}
	rec := &Rec{From: e.Name, Type: typeName(cp.Type), ID: cp.ID, Stat: cp.Stat, HasStat: cp.Stat != nil, DataLen: len(cp.Data)}
	if cp.Stat != nil {
		rec.Path = cp.Stat.Path
	}
	if cp.Type == types.PACKET_DATA || cp.Type == types.PACKET_ERR {
		if e.pair.KeepData {
			rec.Data = cp.Data
		} else {
			h := sha256.Sum256(cp.Data)
			rec.DataSha = hex.EncodeToString(h[:])
		}
	}
	rec.enc = enc
	select {
	case <-e.broken:
		return e.brkErr
	case <-e.ctx.Done():
		return e.ctx.Err()
	case <-e.out.readerGoneCh():
		return ErrPeerGone
	default:
	}
	// the log position is fixed at the moment the packet is accepted by the stream
	select {
	case e.out.ch <- e.pair.stamp(rec):
	case <-e.broken:
		e.pair.unstamp(rec)
		return e.brkErr
	case <-e.ctx.Done():
		e.pair.unstamp(rec)
		return e.ctx.Err()
	case <-e.out.readerGoneCh():
		e.pair.unstamp(rec)
		return ErrPeerGone
	}
	if e.AfterSend != nil {
		e.AfterSend(n, &cp)
	}
	return nil
}

func (e *End) RecvMsg(m interface{}) error {
	if atomic.AddInt32(&e.recvInFlight, 1) > 1 {
		e.overlap("RecvMsg")
	}
	defer atomic.AddInt32(&e.recvInFlight, -1)
	pk, ok := m.(*types.Packet)
	if !ok {
		return fmt.Errorf("harness: RecvMsg into %T", m)
	}
	n := int(atomic.AddInt64(&e.recvN, 1))
	if e.BeforeRecv != nil {
		if err := e.BeforeRecv(n); err != nil {
			return err
		}
	}
	var rec *Rec
	select {
	case <-e.broken:
		return e.brkErr
	case <-e.ctx.Done():
		return e.ctx.Err()
	default:
	}
	select {
	case rec = <-e.in.ch:
	case <-e.broken:
		return e.brkErr
	case <-e.ctx.Done():
		return e.ctx.Err()
	case <-e.in.closed:
		// drain what was queued before the close
		select {
		case rec = <-e.in.ch:
		default:
			return e.in.closeErr
		}
	}
	if e.InsteadOfRecv != nil {
		// the harness may lose this packet and report an error in its place (a peer
		// that died right before the packet got through)
		var tmp types.Packet
		if tmp.UnmarshalVT(rec.enc) == nil {
			if err := e.InsteadOfRecv(n, &tmp); err != nil {
				return err
			}
		}
	}
	if err := pk.UnmarshalVT(rec.enc); err != nil {
		return err
	}
	e.pair.delivered(rec)
	if e.AfterRecv != nil {
		e.AfterRecv(n, pk)
	}
	return nil
}

func (p *Pair) stamp(r *Rec) *Rec {
	p.mu.Lock()
	p.seq++
	r.Seq = p.seq
	p.log = append(p.log, r)
	p.mu.Unlock()
	return r
}

func (p *Pair) unstamp(r *Rec) {
	p.mu.Lock()
	for i := len(p.log) - 1; i >= 0; i-- {
		if p.log[i] == r {
			p.log = append(p.log[:i], p.log[i+1:]...)
			break
		}
	}
	p.mu.Unlock()
}

func (p *Pair) delivered(r *Rec) {
	p.mu.Lock()
	p.seq++
	r.Delivered = p.seq
	p.mu.Unlock()
}

// Log returns a copy of the packet log (all packets accepted by the stream, in
// acceptance order).
func (p *Pair) Log() []*Rec {
	p.mu.Lock()
	defer p.mu.Unlock()
	out := make([]*Rec, len(p.log))
	copy(out, p.log)
	return out
}

// From filters the log by originating endpoint.
func From(log []*Rec, name string) []*Rec {
	var out []*Rec
	for _, r := range log {
		if r.From == name {
			out = append(out, r)
		}
	}
	return out
}

// SendCount / RecvCount return how many calls were started on the endpoint.
func (e *End) SendCount() int { return int(atomic.LoadInt64(&e.sendN)) }
func (e *End) RecvCount() int { return int(atomic.LoadInt64(&e.recvN)) }

func (e *End) GetOverlaps() []string {
	e.ovMu.Lock()
	defer e.ovMu.Unlock()
	return append([]string(nil), e.Overlaps...)
}
