package harness

import (
	"context"
	"encoding/binary"
	"fmt"
	"io"
	"sync"
	"sync/atomic"

	"github.com/tonistiigi/fsutil/types"
)

// PipeStream frames packets over a byte pipe (own 4-byte big-endian framing,
// independent of util/protostream). It is used for peers that live in another
// process (SIGKILL cases).
type PipeStream struct {
	Ctx context.Context
	R   io.Reader
	W   io.Writer

	wmu   sync.Mutex
	Sent  int64
	Recvd int64
	// BeforeSend is called with the 1-based index of the SendMsg call.
	BeforeSend func(n int)
}

func (p *PipeStream) Context() context.Context { return p.Ctx }

func (p *PipeStream) SendMsg(m interface{}) error {
	pk, ok := m.(*types.Packet)
	if !ok {
		return fmt.Errorf("pipestream: SendMsg of %T", m)
	}
	n := int(atomic.AddInt64(&p.Sent, 1))
	if p.BeforeSend != nil {
		p.BeforeSend(n)
	}
	enc, err := pk.MarshalVT()
	if err != nil {
		return err
	}
	buf := make([]byte, 4+len(enc))
	binary.BigEndian.PutUint32(buf, uint32(len(enc)))
	copy(buf[4:], enc)
	p.wmu.Lock()
	defer p.wmu.Unlock()
	_, err = p.W.Write(buf)
	return err
}

func (p *PipeStream) RecvMsg(m interface{}) error {
	pk, ok := m.(*types.Packet)
	if !ok {
		return fmt.Errorf("pipestream: RecvMsg into %T", m)
	}
	var hd [4]byte
	if _, err := io.ReadFull(p.R, hd[:]); err != nil {
		return err
	}
	n := binary.BigEndian.Uint32(hd[:])
	if n > 64<<20 {
		return fmt.Errorf("pipestream: frame of %d bytes", n)
	}
	buf := make([]byte, n)
	if _, err := io.ReadFull(p.R, buf); err != nil {
		if err == io.EOF {
			err = io.ErrUnexpectedEOF
		}
		return err
	}
	atomic.AddInt64(&p.Recvd, 1)
	return pk.UnmarshalVT(buf)
}
