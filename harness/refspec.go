package harness

import (
	"path"
	"strings"
)

// CmpComponents is the reference path order: split on '/', compare the
// component lists lexicographically, components bytewise.
func CmpComponents(p, q string) int {
	a := strings.Split(p, "/")
	b := strings.Split(q, "/")
	for i := 0; i < len(a) && i < len(b); i++ {
		if a[i] != b[i] {
			if a[i] < b[i] {
				return -1
			}
			return 1
		}
	}
	switch {
	case len(a) < len(b):
		return -1
	case len(a) > len(b):
		return 1
	}
	return 0
}

// SpecKind is the kind of one element of a change stream.
type SpecKind int

const (
	SpecDir SpecKind = iota
	SpecFile
	SpecDelete
	// the same two entry kinds reported as "modified" instead of "added": the
	// statement does not distinguish them
	SpecDirMod
	SpecFileMod
)

type SpecElem struct {
	Path string   `json:"p"`
	Kind SpecKind `json:"k"`
}

// cleanRel reports whether p is a clean relative path strictly inside the
// root: non-empty, no leading '/', no empty, "." or ".." component.
// (path.Clean("") is "." so the empty path is unclean; "a/.." cleans to "."
// so any ".." component makes a path either unclean or an escape.)
func cleanRel(p string) bool {
	if p == "" || strings.HasPrefix(p, "/") {
		return false
	}
	for _, c := range strings.Split(p, "/") {
		if c == "" || c == "." || c == ".." {
			return false
		}
	}
	return true
}

// StreamSpec is the acceptance predicate of C12 written from the statement:
// every path is a clean relative path that is neither "." nor ".." nor begins
// with "../", paths are strictly ascending in component order, and the parent
// of every path is a directory accepted earlier (or the root). It returns the
// index of the first offending element, or -1.
func StreamSpec(seq []SpecElem) int {
	dirs := map[string]bool{"": true}
	last := ""
	have := false
	for i, e := range seq {
		p := e.Path
		if p != path.Clean(p) || p == "." || p == ".." || strings.HasPrefix(p, "../") || strings.HasPrefix(p, "/") {
			return i
		}
		if !cleanRel(p) { // belt and braces: identical on every input (checked by the C12 enumerator)
			return i
		}
		if have && CmpComponents(last, p) >= 0 {
			return i
		}
		parent := path.Dir(p)
		if parent == "." {
			parent = ""
		}
		if !dirs[parent] {
			return i
		}
		last, have = p, true
		if e.Kind == SpecDir || e.Kind == SpecDirMod {
			dirs[p] = true
		}
	}
	return -1
}
