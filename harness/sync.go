package harness

import (
	"context"
	"fmt"
	"os"
	"path/filepath"
	"regexp"
	"runtime"
	"strings"
	"sync"
	"syscall"
	"time"

	"github.com/tonistiigi/fsutil"
)

// SyncResult is the outcome of one transfer under the transport model.
type SyncResult struct {
	SendErr, RecvErr error
	Pair             *Pair
	Stuck            string // non-empty: goroutine dump of a quiescent, unfinished transfer
	// StuckAfterTeardown: after Stuck was detected the harness broke both endpoints
	// and cancelled every context; non-empty if the calls still did not return.
	StuckAfterTeardown string
	Leaked             string // non-empty: fsutil goroutines that survived both returns
	Progress           []ProgressCall
}

type ProgressCall struct {
	N    int
	Last bool
}

type SyncOpt struct {
	Capacity int
	Recv     fsutil.ReceiveOpt
	SendProg bool
	// SendProgFn, if set, is handed to Send as it is (no locking added)
	SendProgFn func(int, bool)
	Setup      func(p *Pair) // install hooks before start
	// SetupCalls receives functions that cancel the context handed to Send /
	// Receive (not the stream\'s own context: cancelling a call must not by itself
	// tear the stream down).
	SetupCalls func(cancelSend, cancelRecv func())
	Ctx        context.Context                       // parent context (default Background)
	SendCtx    func(context.Context) context.Context // derive Send's ctx
	CheckLeaks bool
}

// RunSync runs fsutil.Send(src) against fsutil.Receive(dest) over a harness
// pair. Teardown follows the transport model only: an endpoint is closed when
// the call that owns it returns. Termination is decided structurally (see
// Quiescent), never by a wall-clock threshold; a global cap makes the case
// inconclusive (panic) instead.
func RunSync(src fsutil.FS, dest string, o SyncOpt) *SyncResult {
	parent := o.Ctx
	if parent == nil {
		parent = context.Background()
	}
	pair := NewPair(parent, o.Capacity)
	if o.Setup != nil {
		o.Setup(pair)
	}
	res := &SyncResult{Pair: pair}
	var baseline map[string]bool
	if o.CheckLeaks {
		baseline = map[string]bool{}
		for _, g := range dumpGoroutines() {
			if isLibrary(g) {
				baseline[g.id] = true
			}
		}
	}
	var pmu sync.Mutex
	var prog func(int, bool)
	if o.SendProg {
		prog = func(n int, last bool) {
			pmu.Lock()
			res.Progress = append(res.Progress, ProgressCall{n, last})
			pmu.Unlock()
		}
	}
	if o.SendProgFn != nil {
		prog = o.SendProgFn
	}
	sendCtx, cancelSend := context.WithCancel(parent)
	recvCtx, cancelRecv := context.WithCancel(parent)
	defer cancelSend()
	defer cancelRecv()
	if o.SetupCalls != nil {
		o.SetupCalls(cancelSend, cancelRecv)
	}
	var wg sync.WaitGroup
	wg.Add(2)
	go func() {
		defer wg.Done()
		res.SendErr = fsutil.Send(sendCtx, pair.S, src, prog)
		pair.S.Returned(res.SendErr)
	}()
	go func() {
		defer wg.Done()
		res.RecvErr = fsutil.Receive(recvCtx, pair.R, dest, o.Recv)
		pair.R.Returned(res.RecvErr)
	}()
	done := make(chan struct{})
	go func() { wg.Wait(); close(done) }()
	if dump := WaitOrStuck(done, pair); dump != "" {
		res.Stuck = dump
		// release everything so the process can continue
		pair.S.Break(ErrBroken)
		pair.R.Break(ErrBroken)
		pair.S.Cancel()
		pair.R.Cancel()
		cancelSend()
		cancelRecv()
		ReleaseFifoOpeners(dest)
		if dump2 := WaitOrStuck(done, pair); dump2 != "" {
			res.StuckAfterTeardown = dump2
			select {
			case <-done:
			case <-time.After(5 * time.Second):
			}
		}
		return res
	}
	pair.S.Cancel()
	pair.R.Cancel()
	if o.CheckLeaks {
		res.Leaked = LeakedGoroutines(baseline)
	}
	return res
}

var hdrRe = regexp.MustCompile(`^goroutine (\d+) \[([^\],]+)(?:, [^\]]*)?\]:`)

type gor struct {
	id    string
	state string
	body  string
}

func dumpGoroutines() []gor {
	buf := make([]byte, 1<<20)
	for {
		n := runtime.Stack(buf, true)
		if n < len(buf) {
			buf = buf[:n]
			break
		}
		buf = make([]byte, 2*len(buf))
	}
	var out []gor
	for _, blk := range strings.Split(string(buf), "\n\n") {
		blk = strings.TrimSpace(blk)
		if blk == "" {
			continue
		}
		nl := strings.IndexByte(blk, '\n')
		hdr, body := blk, ""
		if nl >= 0 {
			hdr, body = blk[:nl], blk[nl+1:]
		}
		m := hdrRe.FindStringSubmatch(hdr)
		if m == nil {
			continue
		}
		out = append(out, gor{id: m[1], state: m[2], body: body})
	}
	return out
}

// relevant goroutines: those running library code and the harness's own peers
// (a reference sender that is merely waiting to be scheduled must not make the
// library look stuck). The sampling goroutine itself is excluded.
func relevant(g gor) bool {
	if strings.Contains(g.body, "harness.WaitOrStuck") || strings.Contains(g.body, "harness.LeakedGoroutines") {
		return false
	}
	return isLibrary(g) || strings.Contains(g.body, "verif/harness.") || strings.Contains(g.body, "verif/checks.")
}

func isLibrary(g gor) bool {
	return strings.Contains(g.body, "github.com/tonistiigi/fsutil.") || strings.Contains(g.body, "github.com/tonistiigi/fsutil/")
}

func blockedState(s string) bool {
	switch s {
	case "running", "runnable", "syscall", "IO wait", "sleep", "GC assist wait", "GC sweep wait", "GC scavenge wait", "GC worker (idle)", "finalizer wait", "force gc (idle)", "GC assist marking", "preempted", "copystack", "waiting":
		return false
	}
	return true
}

// blockedInFifoOpen: a goroutine sitting in open(2) while a thread of this
// process waits in the kernel's fifo_open for a partner. The harness never
// opens the other end of a FIFO, so such an open cannot complete: unlike any
// other system call it is a blocked state, decided from the kernel's wait
// channel and not from elapsed time.
func blockedInFifoOpen(g gor) bool {
	if !strings.Contains(g.body, "syscall.openat") && !strings.Contains(g.body, "syscall.Open(") {
		return false
	}
	tasks, _ := filepath.Glob("/proc/self/task/*/wchan")
	for _, t := range tasks {
		if b, err := os.ReadFile(t); err == nil {
			w := strings.TrimSpace(string(b))
			if w == "wait_for_partner" || w == "fifo_open" {
				return true
			}
		}
	}
	return false
}

// fingerprint of all relevant goroutines; ok=false if any is not blocked.
func quiescentFingerprint() (string, bool, string) {
	gs := dumpGoroutines()
	var sb, dump strings.Builder
	n, lib := 0, 0
	for _, g := range gs {
		if !relevant(g) {
			continue
		}
		n++
		if !blockedState(g.state) && !(g.state == "syscall" && blockedInFifoOpen(g)) {
			return "", false, ""
		}
		sb.WriteString(g.id + "|" + g.state + "|" + g.body + "\n")
		if isLibrary(g) {
			lib++
			dump.WriteString("goroutine " + g.id + " [" + g.state + "]:\n" + g.body + "\n\n")
		}
	}
	if n == 0 || lib == 0 {
		return "", false, ""
	}
	return sb.String(), true, dump.String()
}

// InconclusiveCap is the global per-case cap after which a case is abandoned
// as inconclusive (never reported as a violation).
var InconclusiveCap = 180 * time.Second

type Inconclusive struct{ Msg string }

func (i Inconclusive) Error() string { return "inconclusive: " + i.Msg }

// WaitOrStuck waits for done. If the transfer becomes quiescent (every
// goroutine with an fsutil frame is in a blocked state with an identical stack
// in 4 consecutive samples 50 ms apart, and no packet is deliverable) it
// returns the goroutine dump. Machine load cannot turn slowness into a
// verdict: a slow goroutine is running/runnable/in a syscall or changes stack.
func WaitOrStuck(done <-chan struct{}, pair *Pair) string {
	start := time.Now()
	select {
	case <-done:
		return ""
	case <-time.After(200 * time.Millisecond):
	}
	last := ""
	same := 0
	for {
		select {
		case <-done:
			return ""
		case <-time.After(40 * time.Millisecond):
		}
		fp, ok, dump := quiescentFingerprint()
		if ok && (pair == nil || !pair.deliverable()) {
			if fp == last {
				same++
			} else {
				last, same = fp, 1
			}
			if same >= 5 {
				select {
				case <-done:
					return ""
				default:
				}
				return dump
			}
		} else {
			last, same = "", 0
		}
		if time.Since(start) > InconclusiveCap {
			panic(Inconclusive{fmt.Sprintf("case exceeded %v without terminating or becoming quiescent\n%s", InconclusiveCap, relevantDump())})
		}
	}
}

// relevantDump renders the goroutines the quiescence rule looks at (for the
// log of an inconclusive case).
func relevantDump() string {
	var sb strings.Builder
	for _, g := range dumpGoroutines() {
		if relevant(g) {
			sb.WriteString("goroutine " + g.id + " [" + g.state + "]:\n" + g.body + "\n\n")
		}
	}
	return sb.String()
}

// deliverable reports whether the harness itself still owes the run an
// action (a gate controller release, a scheduled fault): then blocked
// goroutines are waiting for the harness, not stuck.
func (p *Pair) deliverable() bool {
	if p.Busy != nil {
		return p.Busy()
	}
	return false
}

// LeakedGoroutines polls until no goroutine with an fsutil frame remains, or
// the survivors are quiescent (then returns their dump).
func LeakedGoroutines(baseline ...map[string]bool) string {
	var base map[string]bool
	if len(baseline) > 0 {
		base = baseline[0]
	}
	last := ""
	same := 0
	deadline := time.Now().Add(InconclusiveCap)
	for i := 0; ; i++ {
		gs := dumpGoroutines()
		var rel []gor
		for _, g := range gs {
			if base[g.id] {
				continue // was already there before this run (left behind by an earlier stuck case)
			}
			if isLibrary(g) && !strings.Contains(g.body, "harness.LeakedGoroutines") && !strings.Contains(g.body, "verif/checks.") && !strings.Contains(g.body, "harness.RunSync") && !strings.Contains(g.body, "harness.Run") {
				rel = append(rel, g)
			}
		}
		if len(rel) == 0 {
			return ""
		}
		allBlocked := true
		var sb, dump strings.Builder
		for _, g := range rel {
			if !blockedState(g.state) {
				allBlocked = false
			}
			sb.WriteString(g.id + "|" + g.state + "|" + g.body)
			dump.WriteString("goroutine " + g.id + " [" + g.state + "]:\n" + g.body + "\n\n")
		}
		if allBlocked {
			if sb.String() == last {
				same++
			} else {
				last, same = sb.String(), 1
			}
			if same >= 6 {
				return dump.String()
			}
		} else {
			last, same = "", 0
		}
		if time.Now().After(deadline) {
			panic(Inconclusive{"leak check did not settle"})
		}
		if i < 20 {
			runtime.Gosched()
			time.Sleep(time.Millisecond)
		} else {
			time.Sleep(40 * time.Millisecond)
		}
	}
}

// MutualSendDeadlock classifies a stuck dump: every blocked goroutine with an
// fsutil frame is either inside Stream.SendMsg, waiting for the stream's send
// mutex, or the top-level call waiting for those; nobody is in RecvMsg. That is
// the signature of one specific root cause: after an error both ends have left
// their receive loops while each still has senders blocked on a stream that
// does not buffer.
func MutualSendDeadlock(dump string) bool {
	if dump == "" {
		return false
	}
	sendS, sendR := false, false
	for _, blk := range strings.Split(dump, "\n\n") {
		blk = strings.TrimSpace(blk)
		if blk == "" {
			continue
		}
		switch {
		case strings.Contains(blk, "harness.(*End).RecvMsg"):
			return false
		case strings.Contains(blk, "harness.(*End).SendMsg"):
			if strings.Contains(blk, "fsutil.(*sender)") || strings.Contains(blk, "fsutil.(*fileSender)") {
				sendS = true
			}
			if strings.Contains(blk, "fsutil.(*receiver)") {
				sendR = true
			}
		case strings.Contains(blk, "sync.(*Mutex).Lock") && strings.Contains(blk, "fsutil.(*syncStream).SendMsg"):
		case strings.Contains(blk, "errgroup.(*Group).Wait") && (strings.Contains(blk, "fsutil.(*sender).run") || strings.Contains(blk, "fsutil.(*receiver).run")):
		default:
			return false
		}
	}
	return sendS && sendR
}

// ReleaseFifoOpeners opens every FIFO below root for writing without blocking
// and closes it again, which wakes up any open(2) for reading that waits for
// a partner (clean-up after a stuck verdict; never part of a verdict).
func ReleaseFifoOpeners(root string) {
	filepath.WalkDir(root, func(p string, d os.DirEntry, err error) error {
		if err != nil || d == nil {
			return nil
		}
		if d.Type()&os.ModeNamedPipe != 0 {
			if fd, err := syscall.Open(p, syscall.O_WRONLY|syscall.O_NONBLOCK|syscall.O_CLOEXEC, 0); err == nil {
				syscall.Close(fd)
			}
		}
		return nil
	})
}
