package harness

import (
	"path"
	"strings"

	"github.com/moby/patternmatcher"
)

// Matcher answers "is this path selected by the pattern list" for one list.
type Matcher interface {
	Match(p string) (bool, error)
}

// refMatcher is the naive evaluation of the statement: the path or any of its
// ancestors matches, later patterns override earlier ones, '!' negates.
// moby/patternmatcher.MatchesOrParentMatches is taken as the meaning of a
// pattern list (a dependency, not code under test).
type refMatcher struct {
	pm *patternmatcher.PatternMatcher
}

func (m *refMatcher) Match(p string) (bool, error) { return m.pm.MatchesOrParentMatches(p) }

// NewRefMatcher returns nil for an empty list.
func NewRefMatcher(patterns []string) (Matcher, error) {
	if len(patterns) == 0 {
		return nil, nil
	}
	pm, err := patternmatcher.New(patterns)
	if err != nil {
		return nil, err
	}
	return &refMatcher{pm}, nil
}

// chainMatcher threads MatchesUsingParentResults down the ancestor chain with
// a fresh matcher and no pruning. It exists only to classify the known
// divergence between the two dependency entry points.
type chainMatcher struct {
	pm   *patternmatcher.PatternMatcher
	info map[string]patternmatcher.MatchInfo
	res  map[string]bool
}

func NewChainMatcher(patterns []string) (Matcher, error) {
	if len(patterns) == 0 {
		return nil, nil
	}
	pm, err := patternmatcher.New(patterns)
	if err != nil {
		return nil, err
	}
	return &chainMatcher{pm: pm, info: map[string]patternmatcher.MatchInfo{}, res: map[string]bool{}}, nil
}

func (c *chainMatcher) Match(p string) (bool, error) {
	if r, ok := c.res[p]; ok {
		return r, nil
	}
	var parent patternmatcher.MatchInfo
	if d := path.Dir(p); d != "." {
		if _, err := c.Match(d); err != nil {
			return false, err
		}
		parent = c.info[d]
	}
	m, mi, err := c.pm.MatchesUsingParentResults(p, parent)
	if err != nil {
		return false, err
	}
	c.info[p] = mi
	c.res[p] = m
	return m, nil
}

// MapRes mirrors fsutil.MapResult without importing it here.
type MapRes int

const (
	MapKeep MapRes = iota
	MapExclude
	MapSkipDir
)

// FilterEntry is one entry of the unpruned listing.
type FilterEntry struct {
	Path  string
	IsDir bool
}

// RefFilterResult is what the naive evaluation reports.
type RefFilterResult struct {
	Reported          []string
	MapCalls          map[string]int // how often map was consulted per path
	Weak              bool           // a lazily emitted ancestor was skipped (order of map calls unspecified)
	Pruneable         int            // directories neither kept nor ancestors of anything reported
	Lazy              int            // lazily emitted ancestors
	NegationOverrides bool
}

// RefFilter evaluates include/exclude/map/callback-skip naively over the full
// listing (which must be in walk order), exactly as C10 states it: test every
// entry, keep included and not excluded ones, add the ancestors of kept
// entries; map is consulted for every entry before it is reported.
func RefFilter(listing []FilterEntry, inc, exc Matcher, mapFn func(string) MapRes, cbSkip func(string) bool) (*RefFilterResult, error) {
	res := &RefFilterResult{MapCalls: map[string]int{}}
	isDir := map[string]bool{}
	for _, e := range listing {
		isDir[e.Path] = e.IsDir
	}
	kept := func(p string) (bool, error) {
		if inc != nil {
			m, err := inc.Match(p)
			if err != nil {
				return false, err
			}
			if !m {
				return false, nil
			}
		}
		if exc != nil {
			m, err := exc.Match(p)
			if err != nil {
				return false, err
			}
			if m {
				return false, nil
			}
		}
		return true, nil
	}
	var skips []string // prefixes (with trailing slash) or "" for everything
	skipAll := false
	underSkip := func(p string) bool {
		if skipAll {
			return true
		}
		for _, s := range skips {
			if strings.HasPrefix(p, s) {
				return true
			}
		}
		return false
	}
	skipFrom := func(p string) {
		// SkipDir semantics of filepath.WalkDir
		if isDir[p] {
			skips = append(skips, p+"/")
			return
		}
		par := path.Dir(p)
		if par == "." {
			skipAll = true
			return
		}
		skips = append(skips, par+"/")
	}
	reported := map[string]bool{}
	keptSelf := map[string]bool{}
	callMap := func(p string) MapRes {
		if mapFn == nil {
			return MapKeep
		}
		res.MapCalls[p]++
		return mapFn(p)
	}
	for _, e := range listing {
		if underSkip(e.Path) {
			continue
		}
		k, err := kept(e.Path)
		if err != nil {
			return nil, err
		}
		if !k {
			continue
		}
		keptSelf[e.Path] = true
		switch callMap(e.Path) {
		case MapSkipDir:
			skipFrom(e.Path)
			continue
		case MapExclude:
			continue
		}
		// ancestors that were not kept themselves are emitted on demand, outer first
		aborted := false
		var chain []string
		for d := path.Dir(e.Path); d != "."; d = path.Dir(d) {
			chain = append([]string{d}, chain...)
		}
		for _, a := range chain {
			if keptSelf[a] || reported[a] {
				continue
			}
			r := callMap(a)
			if r == MapExclude {
				continue
			}
			if r == MapSkipDir {
				res.Weak = true
				skips = append(skips, a+"/")
				aborted = true
				break
			}
			reported[a] = true
			res.Lazy++
			res.Reported = append(res.Reported, a)
			if cbSkip != nil && cbSkip(a) {
				res.Weak = true
				skips = append(skips, a+"/")
				aborted = true
				break
			}
		}
		if aborted {
			continue
		}
		reported[e.Path] = true
		res.Reported = append(res.Reported, e.Path)
		if cbSkip != nil && cbSkip(e.Path) {
			skipFrom(e.Path)
		}
	}
	// statistics for the non-trivial rule
	for _, e := range listing {
		if !e.IsDir || reported[e.Path] {
			continue
		}
		has := false
		for r := range reported {
			if strings.HasPrefix(r, e.Path+"/") {
				has = true
				break
			}
		}
		if !has {
			res.Pruneable++
		}
	}
	return res, nil
}
