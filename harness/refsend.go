package harness

import (
	"fmt"
	"os"
	"sort"
	"sync"

	"github.com/tonistiigi/fsutil/types"
)

// Reference sender: an independent implementation of the sending side of the
// protocol (written from the protocol comment in receive.go and wire.proto).
// It drives the real Receive (C07, C19, C03).

type SendScript struct {
	Chunk     []int  `json:"chunk"`     // DATA payload sizes, cycled
	Choices   []int  `json:"choices"`   // schedule choices, cycled
	RaceStats bool   `json:"racestats"` // DATA may be sent before later STATs
	Tail      string `json:"tail"`      // "echo" (FIN echo then close) | "eof" (close before the receiver's FIN)
	EOFAfter  int    `json:"eofafter"`  // for "eof": close after this many packets were sent
	// Trailing: packets (empty DATA frames for id 0) still sent after the FIN echo
	// and before the stream is closed: the receiver has to read to the end
	Trailing int `json:"trailing,omitempty"`
	// LateData > 0 (hostile senders only): after the receiver's FIN and before the
	// echo, one more DATA packet with content for an id whose request was completed
	// long ago (the (LateData-1 mod n)-th requested id)
	LateData int `json:"latedata,omitempty"`
	// NoMarker (hostile senders only): the end-of-stats marker is never sent
	NoMarker bool `json:"nomarker,omitempty"`
	// Serial: a single-threaded sender. It announces everything, then repeatedly
	// reads one packet from the receiver and, if that is a request, streams the
	// whole file before it reads again (requests wait in the transport meanwhile)
	Serial bool `json:"serial,omitempty"`
	// Inject lists extra packets a hostile sender slips in (never used for
	// conforming senders): each is sent once PacketsSent reaches After.
	Inject []Inject `json:"inject,omitempty"`
}

type Inject struct {
	After int    `json:"after"`
	Type  string `json:"type"` // DATA | FIN | ERR | MARKER | REQ
	ID    uint32 `json:"id"`
	Data  []byte `json:"data,omitempty"`
}

type RefSendResult struct {
	SentStats     int
	MarkerSent    bool
	Reqs          []uint32
	ReqBeforeStat []uint32          // REQ for an id that had not been announced yet
	Sent          map[uint32][]byte // payload bytes sent per id
	Terminated    map[uint32]bool
	FinSeen       bool
	FinBeforeDone string // non-empty: FIN arrived although something was outstanding
	ErrPacket     string
	EndErr        error
	AtFin         func() // hook run when FIN is seen, before the echo
	Interleaved   bool   // DATA of >= 2 ids interleaved
	TrailingSent  int    // packets handed to the stream after the FIN echo
	LateDataSent  bool   // the LateData packet was handed to the stream
	LateDataID    uint32
	ClosedEarly   bool
	PacketsSent   int
	Injected      int
}

type sendEvent struct {
	kind string // req | fin | err | end
	id   uint32
	msg  string
	err  error
}

// RunRefSender announces stats (in the order given), serves requests from data
// (path -> bytes) and finishes per script. atFin runs while the receiver waits
// for the FIN echo.
func NewRefSendResult() *RefSendResult {
	return &RefSendResult{Sent: map[uint32][]byte{}, Terminated: map[uint32]bool{}}
}

func RunRefSender(res *RefSendResult, end *End, stats []*types.Stat, dataFor func(id uint32, st *types.Stat) []byte, sc SendScript, atFin func()) *RefSendResult {
	if len(sc.Chunk) == 0 {
		sc.Chunk = []int{32 * 1024}
	}
	if len(sc.Choices) == 0 {
		sc.Choices = []int{0}
	}
	events := make(chan sendEvent, 4096)
	readerDone := make(chan struct{})
	permit := make(chan struct{}, 1)
	var permitOnce sync.Once
	freeReader := func() { permitOnce.Do(func() { close(permit) }) }
	defer freeReader()
	go func() {
		defer close(readerDone)
		for {
			if sc.Serial {
				<-permit
			}
			var p types.Packet
			if err := end.RecvMsg(&p); err != nil {
				events <- sendEvent{kind: "end", err: err}
				return
			}
			switch p.Type {
			case types.PACKET_REQ:
				events <- sendEvent{kind: "req", id: p.ID}
			case types.PACKET_FIN:
				events <- sendEvent{kind: "fin"}
			case types.PACKET_ERR:
				events <- sendEvent{kind: "err", msg: string(p.Data)}
			default:
				events <- sendEvent{kind: "err", msg: fmt.Sprintf("unexpected packet type %v from receiver", p.Type)}
			}
		}
	}()
	type openFile struct {
		id   uint32
		data []byte
		off  int
	}
	var open []*openFile
	next := 0 // next stat to send; len(stats) = marker
	ci, ki := 0, 0
	choice := func() int {
		v := sc.Choices[ci%len(sc.Choices)]
		ci++
		if v < 0 {
			v = -v
		}
		return v
	}
	ended := false
	lastDataID := int64(-1)
	seenIDs := map[uint32]bool{}
	handle := func(ev sendEvent) {
		switch ev.kind {
		case "req":
			res.Reqs = append(res.Reqs, ev.id)
			if int(ev.id) >= next || int(ev.id) >= len(stats) {
				res.ReqBeforeStat = append(res.ReqBeforeStat, ev.id)
				return
			}
			st := stats[ev.id]
			if os.FileMode(st.Mode)&os.ModeType != 0 || seenIDs[ev.id] {
				seenIDs[ev.id] = true
				return // illegal request: recorded in Reqs, never answered
			}
			seenIDs[ev.id] = true
			open = append(open, &openFile{id: ev.id, data: dataFor(ev.id, st)})
		case "fin":
			res.FinSeen = true
			if !res.MarkerSent {
				res.FinBeforeDone = "FIN before the end-of-stats marker was sent"
			}
			for _, o := range open {
				res.FinBeforeDone = fmt.Sprintf("FIN while id %d still had content outstanding", o.id)
			}
		case "err":
			// the receiver gave up: a sender ends its side of the stream
			res.ErrPacket = ev.msg
			ended = true
		case "end":
			res.EndErr = ev.err
			ended = true
		}
	}
	send := func(p *types.Packet) bool {
		if err := end.SendMsg(p); err != nil {
			ended = true
			return false
		}
		res.PacketsSent++
		return true
	}
loop:
	for !ended && !res.FinSeen {
		// drain pending events
		for {
			select {
			case ev := <-events:
				handle(ev)
				continue
			default:
			}
			break
		}
		if ended || res.FinSeen {
			break
		}
		injected := false
		for i := range sc.Inject {
			in := &sc.Inject[i]
			if in.After >= 0 && res.PacketsSent >= in.After {
				in.After = -1
				var p *types.Packet
				switch in.Type {
				case "DATA":
					p = &types.Packet{Type: types.PACKET_DATA, ID: in.ID, Data: in.Data}
				case "FIN":
					p = &types.Packet{Type: types.PACKET_FIN}
				case "ERR":
					p = &types.Packet{Type: types.PACKET_ERR, Data: in.Data}
				case "MARKER":
					p = &types.Packet{Type: types.PACKET_STAT}
				case "REQ":
					p = &types.Packet{Type: types.PACKET_REQ, ID: in.ID}
				}
				if p != nil {
					res.Injected++
					if !send(p) {
						break loop
					}
					injected = true
				}
			}
		}
		if injected {
			continue
		}
		if sc.Tail == "eof" && res.PacketsSent >= sc.EOFAfter {
			res.ClosedEarly = true
			break loop
		}
		var actions []string
		if next <= len(stats) && !res.MarkerSent {
			actions = append(actions, "stat")
		}
		if len(open) > 0 && (sc.RaceStats || res.MarkerSent) {
			actions = append(actions, "data")
		}
		if len(actions) == 0 {
			if sc.Serial {
				select {
				case permit <- struct{}{}:
				default:
				}
			}
			handle(<-events)
			continue
		}
		switch actions[choice()%len(actions)] {
		case "stat":
			if next < len(stats) {
				if !send(&types.Packet{Type: types.PACKET_STAT, Stat: stats[next]}) {
					break loop
				}
				res.SentStats++
			} else {
				if !sc.NoMarker && !send(&types.Packet{Type: types.PACKET_STAT}) {
					break loop
				}
				res.MarkerSent = true
			}
			next++
		case "data":
			sort.SliceStable(open, func(i, j int) bool { return false })
			o := open[choice()%len(open)]
			if lastDataID >= 0 && int64(o.id) != lastDataID && !res.Terminated[uint32(lastDataID)] {
				res.Interleaved = true
			}
			lastDataID = int64(o.id)
			if o.off >= len(o.data) {
				if !send(&types.Packet{Type: types.PACKET_DATA, ID: o.id}) {
					break loop
				}
				res.Terminated[o.id] = true
				for i := range open {
					if open[i] == o {
						open = append(open[:i], open[i+1:]...)
						break
					}
				}
				continue
			}
			n := sc.Chunk[ki%len(sc.Chunk)]
			ki++
			if n <= 0 {
				n = 1
			}
			if o.off+n > len(o.data) {
				n = len(o.data) - o.off
			}
			chunk := o.data[o.off : o.off+n]
			if !send(&types.Packet{Type: types.PACKET_DATA, ID: o.id, Data: chunk}) {
				break loop
			}
			res.Sent[o.id] = append(res.Sent[o.id], chunk...)
			o.off += n
		}
	}
	freeReader()
	if res.FinSeen && !ended {
		if atFin != nil {
			atFin()
		}
		if sc.LateData > 0 {
			var done []uint32
			for _, id := range res.Reqs {
				if res.Terminated[id] {
					done = append(done, id)
				}
			}
			if len(done) > 0 {
				res.LateDataID = done[(sc.LateData-1)%len(done)]
				if end.SendMsg(&types.Packet{Type: types.PACKET_DATA, ID: res.LateDataID, Data: []byte("late content")}) == nil {
					res.LateDataSent = true
				}
			}
		}
		end.SendMsg(&types.Packet{Type: types.PACKET_FIN})
		for i := 0; i < sc.Trailing; i++ {
			if end.SendMsg(&types.Packet{Type: types.PACKET_DATA, ID: 0, Data: []byte("trailing")}) != nil {
				break
			}
			res.TrailingSent++
		}
	}
	end.Returned(nil)
	// the reader ends when the receiver's call returns
	<-readerDone
	for {
		select {
		case ev := <-events:
			handle(ev)
			continue
		default:
		}
		break
	}
	return res
}
