package harness

import (
	"bytes"
	"encoding/binary"
	"encoding/json"
	"os"
	"path"
	"sort"
	"strings"

	"github.com/tonistiigi/fsutil/types"
	"pgregory.net/rapid"
)

type Kind int

const (
	KDir Kind = iota
	KFile
	KSymlink
	KFifo
	KChar
	KBlock
	KSocket
)

func (k Kind) String() string {
	return [...]string{"dir", "file", "symlink", "fifo", "char", "block", "socket"}[k]
}

// Node is one entry of the tree model.
type Node struct {
	Path   string            `json:"p"`
	Kind   Kind              `json:"k"`
	Perm   uint32            `json:"m"` // 12 bits: rwx*3 + suid(04000) sgid(02000) sticky(01000)
	Uid    uint32            `json:"u,omitempty"`
	Gid    uint32            `json:"g,omitempty"`
	Mtime  int64             `json:"t,omitempty"` // ns
	Seed   uint32            `json:"s,omitempty"` // file content = Content(Seed, Size)
	Size   int               `json:"z,omitempty"`
	Target string            `json:"l,omitempty"` // symlink target
	Major  uint32            `json:"ma,omitempty"`
	Minor  uint32            `json:"mi,omitempty"`
	Xattrs map[string][]byte `json:"x,omitempty"`
	LinkTo string            `json:"h,omitempty"` // hard link to the earlier regular file at this path
	// MtimeFar, if non-zero, is the entry's mtime in whole seconds (the nanosecond
	// part still comes from Mtime): instants outside what int64 nanoseconds can hold
	MtimeFar int64 `json:"tf,omitempty"`
}

type nodeJSON struct {
	Path     BStr              `json:"p"`
	Kind     Kind              `json:"k"`
	Perm     uint32            `json:"m"`
	Uid      uint32            `json:"u,omitempty"`
	Gid      uint32            `json:"g,omitempty"`
	Mtime    int64             `json:"t,omitempty"`
	Seed     uint32            `json:"s,omitempty"`
	Size     int               `json:"z,omitempty"`
	Target   BStr              `json:"l,omitempty"`
	Major    uint32            `json:"ma,omitempty"`
	Minor    uint32            `json:"mi,omitempty"`
	Xattrs   map[string][]byte `json:"x,omitempty"`
	LinkTo   BStr              `json:"h,omitempty"`
	MtimeFar int64             `json:"tf,omitempty"`
}

func (n Node) MarshalJSON() ([]byte, error) {
	return json.Marshal(nodeJSON{BStr(n.Path), n.Kind, n.Perm, n.Uid, n.Gid, n.Mtime, n.Seed, n.Size, BStr(n.Target), n.Major, n.Minor, n.Xattrs, BStr(n.LinkTo), n.MtimeFar})
}

func (n *Node) UnmarshalJSON(dt []byte) error {
	var j nodeJSON
	if err := json.Unmarshal(dt, &j); err != nil {
		return err
	}
	*n = Node{string(j.Path), j.Kind, j.Perm, j.Uid, j.Gid, j.Mtime, j.Seed, j.Size, string(j.Target), j.Major, j.Minor, j.Xattrs, string(j.LinkTo), j.MtimeFar}
	return nil
}

// Tree is a list of nodes sorted in reference order, parents present.
type Tree struct {
	Nodes []Node `json:"nodes"`
}

// Content returns the bytes of a model file: a 16-byte token that encodes
// (seed,size) followed by a xorshift stream. Pure function of (seed,size).
func Content(seed uint32, size int) []byte {
	out := make([]byte, size)
	var tok [16]byte
	copy(tok[:], "TK")
	binary.LittleEndian.PutUint32(tok[2:], seed)
	binary.LittleEndian.PutUint64(tok[6:], uint64(size))
	tok[14], tok[15] = '!', '\n'
	n := copy(out, tok[:])
	x := uint64(seed)*2654435761 + 0x9E3779B97F4A7C15
	for i := n; i < size; i++ {
		x ^= x << 13
		x ^= x >> 7
		x ^= x << 17
		out[i] = byte(x >> 24)
	}
	return out
}

func (t *Tree) Sort() {
	sort.SliceStable(t.Nodes, func(i, j int) bool { return CmpComponents(t.Nodes[i].Path, t.Nodes[j].Path) < 0 })
}

func (t *Tree) Index() map[string]*Node {
	m := make(map[string]*Node, len(t.Nodes))
	for i := range t.Nodes {
		m[t.Nodes[i].Path] = &t.Nodes[i]
	}
	return m
}

func (t *Tree) Clone() *Tree {
	out := &Tree{Nodes: make([]Node, len(t.Nodes))}
	for i, n := range t.Nodes {
		out.Nodes[i] = n
		if n.Xattrs != nil {
			x := make(map[string][]byte, len(n.Xattrs))
			for k, v := range n.Xattrs {
				x[k] = append([]byte(nil), v...)
			}
			out.Nodes[i].Xattrs = x
		}
	}
	return out
}

// Normalize sorts the tree, drops entries whose parent is missing or not a
// directory, and makes hard-link members consistent: a link must name an
// earlier (in reference order) regular non-link file; its metadata and content
// are those of the target (one inode). Links that cannot be kept are turned
// into independent files.
func (t *Tree) Normalize() {
	t.Sort()
	// drop duplicates (keep first)
	seen := map[string]bool{}
	nodes := t.Nodes[:0]
	for _, n := range t.Nodes {
		if seen[n.Path] || n.Path == "" {
			continue
		}
		seen[n.Path] = true
		nodes = append(nodes, n)
	}
	t.Nodes = nodes
	idx := map[string]Node{}
	out := t.Nodes[:0]
	for _, n := range t.Nodes {
		par := path.Dir(n.Path)
		if par != "." {
			p, ok := idx[par]
			if !ok || p.Kind != KDir {
				continue
			}
		}
		if n.Kind == KDir || n.Kind == KSymlink || n.Kind == KSocket {
			n.LinkTo = ""
		}
		if n.LinkTo != "" {
			tg, ok := idx[n.LinkTo]
			if !ok || tg.Kind != n.Kind || tg.LinkTo != "" || CmpComponents(tg.Path, n.Path) >= 0 {
				n.LinkTo = ""
			} else {
				n.Perm, n.Uid, n.Gid, n.Mtime, n.Seed, n.Size, n.Xattrs = tg.Perm, tg.Uid, tg.Gid, tg.Mtime, tg.Seed, tg.Size, tg.Xattrs
				n.Major, n.Minor = tg.Major, tg.Minor
			}
		}
		switch n.Kind {
		case KDir:
			n.Size, n.Seed, n.Target, n.Major, n.Minor = 0, 0, "", 0, 0
		case KFile:
			n.Target, n.Major, n.Minor = "", 0, 0
		case KSymlink:
			n.Size, n.Seed, n.Major, n.Minor, n.Perm = 0, 0, 0, 0, 0o777
		case KFifo, KSocket:
			n.Size, n.Seed, n.Target, n.Major, n.Minor = 0, 0, "", 0, 0
		case KChar, KBlock:
			n.Size, n.Seed, n.Target = 0, 0, ""
		}
		if len(n.Xattrs) == 0 {
			n.Xattrs = nil
		}
		idx[n.Path] = n
		out = append(out, n)
	}
	t.Nodes = out
}

// ModeBits returns the os.FileMode-style mode of a node as fsutil reports it.
func (n *Node) ModeBits() uint32 {
	m := os.FileMode(n.Perm & 0o777)
	if n.Perm&0o4000 != 0 {
		m |= os.ModeSetuid
	}
	if n.Perm&0o2000 != 0 {
		m |= os.ModeSetgid
	}
	if n.Perm&0o1000 != 0 {
		m |= os.ModeSticky
	}
	switch n.Kind {
	case KDir:
		m |= os.ModeDir
	case KSymlink:
		m |= os.ModeSymlink
	case KFifo:
		m |= os.ModeNamedPipe
	case KChar:
		m |= os.ModeDevice | os.ModeCharDevice
	case KBlock:
		m |= os.ModeDevice
	case KSocket:
		// documented: socket bit cleared, reported as mode-0-type file
	}
	return uint32(m)
}

// Stat returns the types.Stat a conforming walker would announce for n.
func (n *Node) Stat() *types.Stat {
	st := &types.Stat{Path: n.Path, Mode: n.ModeBits(), Uid: n.Uid, Gid: n.Gid, ModTime: n.Mtime}
	if n.LinkTo != "" && n.Kind != KFile {
		st.Linkname = n.LinkTo
	}
	switch n.Kind {
	case KFile:
		if n.LinkTo != "" {
			st.Linkname = n.LinkTo
		} else {
			st.Size = int64(n.Size)
		}
	case KSymlink:
		st.Linkname = n.Target
		st.Size = int64(len(n.Target))
	case KChar, KBlock:
		st.Devmajor, st.Devminor = int64(n.Major), int64(n.Minor)
	}
	if len(n.Xattrs) > 0 {
		st.Xattrs = map[string][]byte{}
		for k, v := range n.Xattrs {
			st.Xattrs[k] = append([]byte{}, v...)
		}
	}
	return st
}

// ---------------------------------------------------------------------------
// generators

// NamePool is built to collide in ordering and matching: bytes below '/'
// (space ! # + , - .) and above it, prefixes of each other, non-ASCII, glob
// metacharacters, the listing and temp-file names of the receiver.
var NamePool = []string{
	"a", "b", "c", "ab", "a-b", "a b", "a.b", "a0", "A", "d", "e", "f",
	".a", "..a", "...", "é", "日本", "~", "!x", "+", ",", "[x]", "x*", "q?", `back\slash`,
	"a+", "a,", "a!", "a#", "b.c", "b-c", "c0", "c.", "x", "y", "z",
	".fsutil-metadata", ".tmp.123456", "foo", "bar", "baz",
}

// SmallPool gives dense collisions for two-tree properties.
var SmallPool = []string{"a", "b", "ab", "a-b", "a.b", "c", "a0", "d"}

type TreeCfg struct {
	MaxEntries      int
	MaxDepth        int
	Names           []string
	Kinds           []Kind // allowed kinds (dirs always allowed)
	Xattrs          bool
	XattrNS         []string // namespaces for xattrs, default user. (+trusted. security. when privileged)
	Hardlinks       bool
	SpecialLinks    bool     // also hard-link fifos and device nodes
	BigFiles        bool     // allow sizes around and above 32 KiB
	Uids            []uint32 // pool
	LongNames       bool
	BadUTF8         bool
	SymTargets      []string // extra symlink targets
	FarTimes        bool     // some entries get mtimes in the years 2300 or 2400 (beyond int64 nanoseconds)
	UncleanTargets  bool     // also spell some symlink targets uncleanly ("a/", "./a", "a//b", "../../"): target strings must survive verbatim
	BigXattrs       bool     // one trusted.* value in 12 is 32768..65536 bytes long (tmpfs holds up to 64 KiB)
	Caps            bool     // give some regular files a security.capability xattr (file capabilities)
	SiblingSuffixes []string // suffixes for order-sensitive sibling names (nil = default set)
}

var DefaultKinds = []Kind{KFile, KFile, KFile, KSymlink, KFifo, KChar, KBlock}

var sizePoolSmall = []int{0, 0, 1, 17, 100, 1000}
var sizePoolBig = []int{0, 1, 17, 1000, 32767, 32768, 32769, 65536, 65537, 100003}

var mtimePool = []int64{0, 1, -1, -1_500_000_000_123_456_789, 1_000_000_000, 1_500_000_000_123_456_789, 1_700_000_000_000_000_001, 4_102_444_800_000_000_000, 946_684_800_999_999_999}

func genName(t *rapid.T, cfg *TreeCfg, label string, siblingDirs []string) string {
	pool := cfg.Names
	if pool == nil {
		pool = NamePool
	}
	r := rapid.IntRange(0, 99).Draw(t, label+"cls")
	switch {
	case r >= 97 && cfg.LongNames:
		c := rapid.SampledFrom([]string{"L", "m", "é"}).Draw(t, label+"lc")
		n := 255 / len(c)
		return strings.Repeat(c, n)
	case r >= 94 && cfg.LongNames:
		return strings.Repeat("n", rapid.IntRange(100, 140).Draw(t, label+"ln"))
	case r >= 88 && cfg.BadUTF8:
		return rapid.SampledFrom([]string{"\xff", "a\xffb", "\xe6\x97", "\xc3("}).Draw(t, label+"bad")
	case r >= 65 && len(siblingDirs) > 0:
		// a sibling whose name extends a directory's name with a byte that sorts
		// below or above '/': bytewise and component-wise orders then differ
		d := siblingDirs[rapid.IntRange(0, len(siblingDirs)-1).Draw(t, label+"sd")]
		if len(d) < 200 {
			sfx := cfg.SiblingSuffixes
			if sfx == nil {
				sfx = []string{"-b", " ", "!", "#", "+", ",", "-", ".", ".b", "0", "~", "\x01"}
			}
			return d + rapid.SampledFrom(sfx).Draw(t, label+"suf")
		}
	}
	return rapid.SampledFrom(pool).Draw(t, label)
}

func genPerm(t *rapid.T, label string, dir bool) uint32 {
	r := rapid.IntRange(0, 9).Draw(t, label+"c")
	switch {
	case r < 3:
		if dir {
			return 0o755
		}
		return 0o644
	case r < 5:
		return rapid.SampledFrom([]uint32{0o600, 0o700, 0o444, 0o400, 0o555, 0o777, 0o750, 0o640, 0}).Draw(t, label)
	case r < 7:
		return rapid.SampledFrom([]uint32{0o4755, 0o2755, 0o6755, 0o1777, 0o1755, 0o4711, 0o2644, 0o7777}).Draw(t, label)
	}
	return uint32(rapid.IntRange(0, 0o7777).Draw(t, label))
}

func genMtime(t *rapid.T, label string) int64 {
	if rapid.Bool().Draw(t, label+"p") {
		return rapid.SampledFrom(mtimePool).Draw(t, label)
	}
	return rapid.Int64Range(1, 2_000_000_000).Draw(t, label+"s")*1_000_000_000 + rapid.Int64Range(0, 999_999_999).Draw(t, label+"n")
}

// FileCaps is a valid VFS_CAP_REVISION_2 value (cap_net_raw+ep). The kernel drops this
// xattr on chown and on every write to the file.
var FileCaps = []byte{0x01, 0x00, 0x00, 0x02, 0x00, 0x20, 0x00, 0x00, 0, 0, 0, 0, 0, 0, 0, 0, 0, 0, 0, 0}

func genXattrs(t *rapid.T, cfg *TreeCfg, label string, kind Kind) map[string][]byte {
	if cfg.Caps && kind == KFile && rapid.IntRange(0, 5).Draw(t, label+"caps") == 0 {
		return map[string][]byte{"security.capability": FileCaps}
	}
	if !cfg.Xattrs || rapid.IntRange(0, 3).Draw(t, label+"has") != 0 {
		return nil
	}
	ns := cfg.XattrNS
	if ns == nil {
		ns = []string{"user."}
	}
	n := rapid.IntRange(1, 2).Draw(t, label+"n")
	out := map[string][]byte{}
	for i := 0; i < n; i++ {
		space := rapid.SampledFrom(ns).Draw(t, label+"ns")
		if space == "user." && kind != KFile && kind != KDir {
			// the kernel refuses user.* on symlinks and special files
			continue
		}
		key := space + rapid.SampledFrom([]string{"k", "key2", "a.b", "Z", "overlay.opaque"}).Draw(t, label+"k")
		val := rapid.SampledFrom([][]byte{[]byte("v"), {}, []byte("with\x00nul"), []byte("longer value \xff\xfe"), []byte("=")}).Draw(t, label+"v")
		// (trusted.* only: tmpfs charges user.* values to a per-mount budget that
		// concurrent cases can exhaust, and a failed setxattr is ignored by design)
		// and not on the shards that run on a disk file system (ext4 stores one block)
		if cfg.BigXattrs && space == "trusted." && os.Getenv("VERIF_DISKFS") == "" && rapid.IntRange(0, 11).Draw(t, label+"big") == 0 {
			val = bytes.Repeat([]byte{'B'}, rapid.SampledFrom([]int{32768, 32769, 40000, 65536}).Draw(t, label+"bigsize"))
		}
		out[key] = val
	}
	if len(out) == 0 {
		return nil
	}
	return out
}

var symTargets = []string{"a", "b", "../a", "../../a", "/a", "/outside/secret", "../../../../outside", ".", "..", "nonexistent", "a/b", "./a", "/", "x/../y", ""}

// GenTree draws a tree constructively: every entry picks an existing
// directory as parent, a name from the pool and a kind. Fewer entries and
// earlier pool elements are "smaller" for shrinking.
func GenTree(t *rapid.T, cfg TreeCfg, label string) *Tree {
	if cfg.MaxEntries == 0 {
		cfg.MaxEntries = 12
	}
	if cfg.MaxDepth == 0 {
		cfg.MaxDepth = 4
	}
	kinds := cfg.Kinds
	if kinds == nil {
		kinds = DefaultKinds
	}
	uids := cfg.Uids
	if uids == nil {
		uids = []uint32{0, 0, 1000, 1234, 65534, 1<<31 + 5}
	}
	n := rapid.IntRange(0, cfg.MaxEntries).Draw(t, label+".n")
	tr := &Tree{}
	dirs := []string{""} // "" = root
	depth := map[string]int{"": 0}
	used := map[string]bool{}
	childDirs := map[string][]string{}
	var files []string
	for i := 0; i < n; i++ {
		li := label + "." + itoa(i)
		// bias towards the most recent directory so directories get content
		pi := len(dirs) - 1 - rapid.IntRange(0, len(dirs)-1).Draw(t, li+".par")
		if rapid.IntRange(0, 2).Draw(t, li+".parlast") == 0 {
			pi = len(dirs) - 1
		}
		par := dirs[pi]
		name := genName(t, &cfg, li+".name", childDirs[par])
		p := name
		if par != "" {
			p = par + "/" + name
		}
		if used[p] || len(p) > 3000 {
			continue
		}
		used[p] = true
		isDir := depth[par] < cfg.MaxDepth && rapid.IntRange(0, 9).Draw(t, li+".isdir") < 4
		nd := Node{Path: p}
		if isDir {
			nd.Kind = KDir
			dirs = append(dirs, p)
			childDirs[par] = append(childDirs[par], name)
			depth[p] = depth[par] + 1
		} else {
			nd.Kind = rapid.SampledFrom(kinds).Draw(t, li+".kind")
		}
		nd.Perm = genPerm(t, li+".perm", isDir)
		nd.Uid = rapid.SampledFrom(uids).Draw(t, li+".uid")
		nd.Gid = rapid.SampledFrom(uids).Draw(t, li+".gid")
		nd.Mtime = genMtime(t, li+".mt")
		if cfg.FarTimes && rapid.IntRange(0, 7).Draw(t, li+".far") == 0 {
			nd.MtimeFar = rapid.SampledFrom([]int64{10_413_792_000, 13_569_465_600}).Draw(t, li+".fartime") // 2300, 2400: beyond int64 ns, within what tmpfs and ext4 store
			if nd.Mtime < 0 {
				nd.Mtime = -nd.Mtime
			}
		}
		switch nd.Kind {
		case KFile:
			if cfg.Hardlinks && len(files) > 0 && rapid.IntRange(0, 3).Draw(t, li+".islink") == 0 {
				nd.LinkTo = files[rapid.IntRange(0, len(files)-1).Draw(t, li+".linkto")]
			} else {
				pool := sizePoolSmall
				if cfg.BigFiles {
					pool = sizePoolBig
				}
				nd.Size = rapid.SampledFrom(pool).Draw(t, li+".size")
				nd.Seed = uint32(rapid.IntRange(1, 1<<20).Draw(t, li+".seed"))
				files = append(files, p)
			}
		case KSymlink:
			tg := symTargets
			if cfg.SymTargets != nil {
				tg = cfg.SymTargets
			}
			nd.Target = rapid.SampledFrom(tg).Draw(t, li+".target")
			if nd.Target == "" {
				nd.Target = "a"
			}
			if cfg.UncleanTargets && rapid.IntRange(0, 4).Draw(t, li+".unclean") == 0 {
				switch rapid.IntRange(0, 5).Draw(t, li+".uncleanform") {
				case 0:
					nd.Target += "/"
				case 1:
					nd.Target = "./" + strings.TrimPrefix(nd.Target, "/")
				case 2:
					nd.Target = strings.Replace(nd.Target+"/x", "/", "//", 1)
				case 3:
					nd.Target += "/."
				case 4:
					nd.Target = "../../"
				case 5:
					nd.Target += "/../" + nd.Target
				}
			}
		case KFifo:
			if cfg.SpecialLinks && rapid.IntRange(0, 2).Draw(t, li+".isslink") == 0 {
				for _, prev := range tr.Nodes {
					if prev.Kind == KFifo && prev.LinkTo == "" {
						nd.LinkTo = prev.Path
					}
				}
			}
		case KChar, KBlock:
			if cfg.SpecialLinks && rapid.IntRange(0, 2).Draw(t, li+".isslink") == 0 {
				for _, prev := range tr.Nodes {
					if prev.Kind == nd.Kind && prev.LinkTo == "" {
						nd.LinkTo = prev.Path
					}
				}
			}
			nd.Major = uint32(rapid.SampledFrom([]int{0, 1, 5, 8, 255, 256, 4095}).Draw(t, li+".maj"))
			nd.Minor = uint32(rapid.SampledFrom([]int{0, 1, 3, 255, 256, 65535, 1<<20 - 1}).Draw(t, li+".min"))
		}
		nd.Xattrs = genXattrs(t, &cfg, li+".x", nd.Kind)
		tr.Nodes = append(tr.Nodes, nd)
	}
	tr.Normalize()
	return tr
}

func itoa(i int) string {
	if i == 0 {
		return "0"
	}
	var b [12]byte
	p := len(b)
	for i > 0 {
		p--
		b[p] = byte('0' + i%10)
		i /= 10
	}
	return string(b[p:])
}

// HasOrderSensitiveSiblings reports whether two siblings order differently
// bytewise (as whole paths) and component-wise.
func (t *Tree) HasOrderSensitiveSiblings() bool {
	for i := 0; i < len(t.Nodes); i++ {
		for j := i + 1; j < len(t.Nodes) && j < i+40; j++ {
			a, b := t.Nodes[i].Path, t.Nodes[j].Path
			if (a < b) != (CmpComponents(a, b) < 0) {
				return true
			}
		}
	}
	return false
}

func (t *Tree) CountKind(k Kind) int {
	c := 0
	for _, n := range t.Nodes {
		if n.Kind == k {
			c++
		}
	}
	return c
}

func (t *Tree) HasLinks() bool {
	for _, n := range t.Nodes {
		if n.LinkTo != "" {
			return true
		}
	}
	return false
}

// Interesting summarises the feature classes of a tree.
func (t *Tree) Features() []string {
	var f []string
	add := func(s string) {
		for _, x := range f {
			if x == s {
				return
			}
		}
		f = append(f, s)
	}
	for _, n := range t.Nodes {
		if n.LinkTo != "" {
			add("hardlink")
		}
		switch n.Kind {
		case KFifo, KChar, KBlock, KSocket:
			add("special")
		case KSymlink:
			add("symlink")
		case KFile:
			if n.Size > 32768 {
				add("multichunk")
			}
			if n.Size == 0 && n.LinkTo == "" {
				add("emptyfile")
			}
		}
		if n.Perm&0o7000 != 0 {
			add("specialbits")
		}
		if len(n.Xattrs) > 0 {
			add("xattr")
		}
	}
	if t.HasOrderSensitiveSiblings() {
		add("ordersensitive")
	}
	return f
}
