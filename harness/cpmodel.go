package harness

import (
	"fmt"
	"path"
	"path/filepath"
	"sort"
	"strings"
)

// Overlay model of copy.Copy written from the statement of C15 (not from
// copy.go): destination selection (basename rule, dir-contents, trailing
// separator), merge of directories, replacement of non-directories, conflict
// => error with the obstacle unchanged, always-replace => source wins,
// wildcard = the matches in listing order, applied one after the other.

type CpOpts struct {
	DirContents   bool `json:"dircontents"`
	AlwaysReplace bool `json:"alwaysreplace"`
	Wildcards     bool `json:"wildcards"`
	// Follow: a source argument that is a symbolic link stands for what it
	// resolves to inside the source root; it still lands under its own name
	Follow bool `json:"follow,omitempty"`
}

// CpState is the destination as the model sees it.
type CpState struct {
	Nodes   map[string]*Node  // path -> entry ("" = root is implicit)
	From    map[string]string // path -> source path it was copied from ("" value with key present = created parent)
	Created map[string]bool   // directories created as parents (unspecified metadata)
}

func NewCpState(dst *Tree) *CpState {
	s := &CpState{Nodes: map[string]*Node{}, From: map[string]string{}, Created: map[string]bool{}}
	if dst != nil {
		for i := range dst.Nodes {
			n := dst.Nodes[i]
			s.Nodes[n.Path] = &n
		}
	}
	return s
}

func (s *CpState) isDir(p string) bool {
	if p == "" {
		return true
	}
	n, ok := s.Nodes[p]
	return ok && n.Kind == KDir
}

func (s *CpState) exists(p string) bool {
	if p == "" {
		return true
	}
	_, ok := s.Nodes[p]
	return ok
}

func (s *CpState) rmTree(p string) {
	for q := range s.Nodes {
		if q == p || strings.HasPrefix(q, p+"/") {
			delete(s.Nodes, q)
			delete(s.From, q)
			delete(s.Created, q)
		}
	}
}

type CpError struct {
	Msg      string
	Obstacle string // destination path that blocked the copy ("" = none/other)
}

func (e *CpError) Error() string { return e.Msg }

func (s *CpState) mkdirAll(p string) *CpError {
	if p == "" {
		return nil
	}
	comps := strings.Split(p, "/")
	cur := ""
	for _, c := range comps {
		cur = joinRel(cur, c)
		if n, ok := s.Nodes[cur]; ok {
			if n.Kind != KDir {
				return &CpError{Msg: fmt.Sprintf("parent %q is not a directory", cur), Obstacle: cur}
			}
			continue
		}
		s.Nodes[cur] = &Node{Path: cur, Kind: KDir, Perm: 0o755}
		s.Created[cur] = true
	}
	return nil
}

func cleanRelPath(p string) string {
	p = path.Clean("/" + p)
	return strings.TrimPrefix(p, "/")
}

// CpMatches expands a wildcard source against the source tree: every path
// that matches the pattern (component-wise glob, '*' does not cross '/'),
// not below an already matched directory, in listing order.
func CpMatches(src *Tree, pattern string) ([]string, error) {
	pat := cleanRelPath(pattern)
	var out []string
	var matchedDirs []string
	for _, n := range src.Nodes {
		skip := false
		for _, d := range matchedDirs {
			if strings.HasPrefix(n.Path, d+"/") {
				skip = true
			}
		}
		if skip {
			continue
		}
		ok, err := filepath.Match(pat, n.Path)
		if err != nil {
			return nil, err
		}
		if ok {
			out = append(out, n.Path)
			if n.Kind == KDir {
				matchedDirs = append(matchedDirs, n.Path)
			}
		}
	}
	return out, nil
}

// Copy applies one Copy(src -> dstArg) to the state. srcPath "" means the
// source root. It returns the model's verdict; on error the state holds
// whatever had been applied.
func (s *CpState) Copy(src *Tree, srcPath, dstArg string, o CpOpts) *CpError {
	trailing := strings.HasSuffix(dstArg, "/") || strings.HasSuffix(dstArg, "/.")
	D := cleanRelPath(dstArg)
	// parents of the destination argument (the argument itself with a trailing separator)
	ensure := D
	if !trailing {
		ensure = parentRel(D)
	}
	if err := s.mkdirAll(ensure); err != nil {
		return err
	}
	srcs := []string{cleanRelPath(srcPath)}
	if o.Wildcards && strings.ContainsAny(srcPath, "*?[") {
		m, err := CpMatches(src, srcPath)
		if err != nil {
			return &CpError{Msg: err.Error()}
		}
		if len(m) == 0 {
			return &CpError{Msg: "no matches found"}
		}
		srcs = m
	}
	sidx := src.Index()
	for _, S := range srcs {
		E := S // the entry that is copied
		if o.Follow && S != "" {
			r := ResolveIn(src, S, true)
			if !r.Exists || r.Loop || r.NotDir {
				return &CpError{Msg: fmt.Sprintf("source %q does not resolve inside the source root", S)}
			}
			E = r.Final
		}
		srcIsDir := E == ""
		if n, ok := sidx[E]; ok {
			srcIsDir = n.Kind == KDir
		} else if E != "" {
			return &CpError{Msg: fmt.Sprintf("source %q does not exist", E)}
		}
		base := path.Base(S)
		dExists := s.exists(D)
		T := D
		if srcIsDir {
			if !o.DirContents && dExists && S != "" {
				T = joinRel(D, base)
			}
		} else if dExists && s.isDir(D) {
			T = joinRel(D, base)
		}
		par := parentRel(T)
		if o.DirContents && srcIsDir && !dExists {
			par = T
		}
		if err := s.mkdirAll(par); err != nil {
			return err
		}
		if err := s.overlay(src, sidx, E, T, o); err != nil {
			return err
		}
	}
	return nil
}

func (s *CpState) overlay(src *Tree, sidx map[string]*Node, S, T string, o CpOpts) *CpError {
	srcIsDir := S == ""
	var sn *Node
	if S != "" {
		sn = sidx[S]
		srcIsDir = sn.Kind == KDir
	}
	tExists := s.exists(T)
	tIsDir := s.isDir(T)
	if o.AlwaysReplace && tExists && T != "" && !(srcIsDir && tIsDir) {
		s.rmTree(T)
		tExists, tIsDir = false, false
	}
	if !srcIsDir {
		if tExists && tIsDir {
			return &CpError{Msg: fmt.Sprintf("cannot replace directory %q with a non-directory", T), Obstacle: T}
		}
		if T == "" {
			return &CpError{Msg: "cannot replace the destination root", Obstacle: ""}
		}
		if tExists {
			s.rmTree(T)
		}
		n := *sn
		n.Path = T
		s.Nodes[T] = &n
		s.From[T] = S
		delete(s.Created, T)
		return nil
	}
	if !tExists {
		n := Node{Path: T, Kind: KDir, Perm: 0o755}
		if sn != nil {
			n = *sn
			n.Path = T
		}
		s.Nodes[T] = &n
		s.From[T] = S
	} else if !tIsDir {
		return &CpError{Msg: fmt.Sprintf("cannot copy directory onto non-directory %q", T), Obstacle: T}
	} else if T != "" {
		// directories merge; the metadata of a merged directory is unspecified
		delete(s.From, T)
		s.Created[T] = true
	}
	// children in name order
	var kids []string
	for _, n := range src.Nodes {
		if parentRel(n.Path) == S && n.Path != S {
			if S == "" && strings.Contains(n.Path, "/") {
				continue
			}
			kids = append(kids, n.Path)
		}
	}
	sort.Strings(kids)
	for _, k := range kids {
		if err := s.overlay(src, sidx, k, joinRel(T, path.Base(k)), o); err != nil {
			return err
		}
	}
	return nil
}
