package harness

import (
	"context"
	"errors"
	"io"
	gofs "io/fs"
	"os"
	"path/filepath"
	"strings"
	"sync"

	"github.com/tonistiigi/fsutil"
	"github.com/tonistiigi/fsutil/types"
)

// MemFS is a synthetic fsutil.FS backed by the tree model. Walk honours
// SkipDir like filepath.WalkDir; it can inject faults and gate reads.
type MemFS struct {
	T *Tree

	// RawStats, when set, replaces the stats derived from T (for generators that
	// need stats no disk could hold). Paths must be in reference order.
	RawStats []*types.Stat
	RawData  map[string][]byte

	// LinkSizeFull makes hard-link members announce the full file size, as the
	// on-disk walker does; by default they announce size 0 (tar convention).
	LinkSizeFull bool

	WalkErrAt   int   // 1-based entry index at which Walk's callback gets an error (0 = none)
	WalkErr     error // the error
	ReadErrPath string
	ReadErrAt   int // fail after this many bytes of ReadErrPath
	ReadErr     error
	OpenErr     map[string]error

	// ReadStyle varies how opened files hand out their bytes, within what io.Reader
	// allows: 0 fills the buffer and reports io.EOF with a separate empty read;
	// 1 returns the last bytes together with io.EOF; 2 returns at most 3 bytes
	// per call; 3 does both.
	ReadStyle int

	// BeforeRead, if set, is called before every Read of an opened file
	// (path, offset) and may block (gates/delays).
	BeforeRead func(path string, off int)

	mu    sync.Mutex
	Opens []string
	Walks int
}

var _ fsutil.FS = &MemFS{}

// Stats returns the stats the view announces, in walk order.
func (m *MemFS) Stats() []*types.Stat { return m.stats() }

func (m *MemFS) stats() []*types.Stat {
	if m.RawStats != nil {
		return m.RawStats
	}
	out := make([]*types.Stat, len(m.T.Nodes))
	idx := m.T.Index()
	for i := range m.T.Nodes {
		out[i] = m.T.Nodes[i].Stat()
		if n := &m.T.Nodes[i]; m.LinkSizeFull && n.Kind == KFile && n.LinkTo != "" {
			out[i].Size = int64(idx[n.LinkTo].Size)
		}
	}
	return out
}

func (m *MemFS) Walk(ctx context.Context, target string, fn gofs.WalkDirFunc) error {
	m.mu.Lock()
	m.Walks++
	m.mu.Unlock()
	target = strings.Trim(filepath.ToSlash(filepath.Clean("/"+target)), "/")
	stats := m.stats()
	skip := "" // prefix being skipped
	n := 0
	for i, st := range stats {
		select {
		case <-ctx.Done():
			return ctx.Err()
		default:
		}
		p := st.Path
		if target != "" && p != target && !strings.HasPrefix(p, target+"/") {
			continue
		}
		if skip != "" && strings.HasPrefix(p, skip) {
			continue
		}
		skip = ""
		n++
		var err error
		if m.WalkErrAt != 0 && n == m.WalkErrAt {
			err = fn(p, &fsutil.DirEntryInfo{Stat: st.Clone()}, m.WalkErr)
			if err == nil {
				// a callback that swallows the error continues like WalkDir does
				continue
			}
		} else {
			err = fn(p, &fsutil.DirEntryInfo{Stat: st.Clone()}, nil)
		}
		if err != nil {
			if errors.Is(err, filepath.SkipDir) {
				if st.IsDir() {
					skip = p + "/"
				} else {
					// skip the rest of the parent directory
					par := ""
					if j := strings.LastIndex(p, "/"); j >= 0 {
						par = p[:j+1]
					}
					if par == "" {
						return nil
					}
					skip = par
					// entries of the parent after this one: all have prefix par
					_ = i
				}
				continue
			}
			if errors.Is(err, filepath.SkipAll) {
				return nil
			}
			return err
		}
	}
	return nil
}

func (m *MemFS) data(p string) ([]byte, bool) {
	if m.RawStats != nil {
		d, ok := m.RawData[p]
		return d, ok
	}
	for i := range m.T.Nodes {
		n := &m.T.Nodes[i]
		if n.Path == p {
			if n.Kind != KFile && n.Kind != KSocket {
				return nil, false
			}
			if n.LinkTo != "" {
				return m.data(n.LinkTo)
			}
			return Content(n.Seed, n.Size), true
		}
	}
	return nil, false
}

func (m *MemFS) Open(p string) (io.ReadCloser, error) {
	p = filepath.ToSlash(p)
	m.mu.Lock()
	m.Opens = append(m.Opens, p)
	m.mu.Unlock()
	if err, ok := m.OpenErr[p]; ok {
		return nil, err
	}
	d, ok := m.data(p)
	if !ok {
		return nil, &os.PathError{Op: "open", Path: p, Err: os.ErrNotExist}
	}
	r := &memReader{m: m, p: p, d: d, failAt: -1}
	if m.ReadErrPath == p && m.ReadErr != nil {
		r.failAt = m.ReadErrAt
	}
	return r, nil
}

type memReader struct {
	m      *MemFS
	p      string
	d      []byte
	off    int
	failAt int
}

func (r *memReader) Read(b []byte) (int, error) {
	if r.m.BeforeRead != nil {
		r.m.BeforeRead(r.p, r.off)
	}
	if r.failAt >= 0 && r.off >= r.failAt {
		return 0, r.m.ReadErr
	}
	if r.off >= len(r.d) {
		return 0, io.EOF
	}
	end := len(r.d)
	if r.failAt >= 0 && end > r.failAt {
		end = r.failAt
	}
	if r.m.ReadStyle&2 != 0 && end > r.off+3 {
		end = r.off + 3
	}
	n := copy(b, r.d[r.off:end])
	r.off += n
	if r.m.ReadStyle&1 != 0 && r.off >= len(r.d) && (r.failAt < 0 || r.failAt >= len(r.d)) {
		return n, io.EOF
	}
	return n, nil
}

func (r *memReader) Close() error { return nil }
