package harness

import (
	"crypto/sha256"
	"fmt"
	"hash"
	"os"
	"sort"
	"sync"

	"github.com/opencontainers/go-digest"
	"github.com/tonistiigi/fsutil"
	"github.com/tonistiigi/fsutil/types"
)

// StatHeader is the caller's canonical header for an entry: every stat field
// in a fixed order.
func StatHeader(st *types.Stat) []byte {
	keys := make([]string, 0, len(st.Xattrs))
	for k := range st.Xattrs {
		keys = append(keys, k)
	}
	sort.Strings(keys)
	s := fmt.Sprintf("path=%q mode=%o uid=%d gid=%d size=%d mtime=%d link=%q dev=%d:%d", st.Path, st.Mode, st.Uid, st.Gid, st.Size, st.ModTime, st.Linkname, st.Devmajor, st.Devminor)
	for _, k := range keys {
		s += fmt.Sprintf(" x[%q]=%q", k, st.Xattrs[k])
	}
	return []byte(s + "\n")
}

// Hasher is the ContentHasher handed to Receive: SHA-256 seeded with the header.
func Hasher(st *types.Stat) (hash.Hash, error) {
	h := sha256.New()
	h.Write(StatHeader(st))
	return h, nil
}

// ExpectedDigest recomputes a notification digest from the stat as sent and
// the bytes now stored.
func ExpectedDigest(st *types.Stat, content []byte) string {
	h := sha256.New()
	h.Write(StatHeader(st))
	h.Write(content)
	return digest.NewDigest(digest.SHA256, h).String()
}

// Note is one change notification.
type Note struct {
	Kind   string      `json:"kind"` // add | modify | delete
	Path   string      `json:"path"`
	Stat   *types.Stat `json:"-"`
	Mode   uint32      `json:"mode"`
	Size   int64       `json:"size"`
	Digest string      `json:"digest"`
	HasFi  bool        `json:"hasfi"`
	Seq    int         `json:"seq"`
}

// NotifyLog records NotifyHashed calls.
type NotifyLog struct {
	mu    sync.Mutex
	Notes []Note
	// FailAt, if > 0, makes the FailAt-th call return Err.
	FailAt int
	Err    error
}

type digester interface{ Digest() digest.Digest }

func (l *NotifyLog) Fn(kind fsutil.ChangeKind, p string, fi os.FileInfo, err error) error {
	l.mu.Lock()
	defer l.mu.Unlock()
	n := Note{Kind: kind.String(), Path: p, Seq: len(l.Notes)}
	if fi != nil {
		n.HasFi = true
		if st, ok := fi.Sys().(*types.Stat); ok && st != nil {
			n.Stat = st.Clone()
		}
		n.Mode = uint32(fi.Mode())
		n.Size = fi.Size()
		if d, ok := fi.(digester); ok {
			n.Digest = d.Digest().String()
		}
	}
	l.Notes = append(l.Notes, n)
	if l.FailAt > 0 && len(l.Notes) == l.FailAt {
		return l.Err
	}
	return err
}

func (l *NotifyLog) Snapshot() []Note {
	l.mu.Lock()
	defer l.mu.Unlock()
	return append([]Note(nil), l.Notes...)
}
