package harness

import (
	"bytes"
	"crypto/sha256"
	"encoding/hex"
	"fmt"
	"os"
	"path/filepath"
	"sort"
	"syscall"

	"golang.org/x/sys/unix"
)

// Materialise creates the tree under root (which must exist) with direct
// syscalls. It shares no code with the library under test.
func Materialise(t *Tree, root string) error {
	for i := range t.Nodes {
		n := &t.Nodes[i]
		p := filepath.Join(root, filepath.FromSlash(n.Path))
		if n.LinkTo != "" {
			if err := unix.Link(filepath.Join(root, filepath.FromSlash(n.LinkTo)), p); err != nil {
				return fmt.Errorf("link %s: %w", n.Path, err)
			}
			continue
		}
		switch n.Kind {
		case KDir:
			if err := unix.Mkdir(p, 0o700); err != nil {
				return fmt.Errorf("mkdir %s: %w", n.Path, err)
			}
		case KFile:
			if err := os.WriteFile(p, Content(n.Seed, n.Size), 0o600); err != nil {
				return fmt.Errorf("write %s: %w", n.Path, err)
			}
		case KSymlink:
			if err := unix.Symlink(n.Target, p); err != nil {
				return fmt.Errorf("symlink %s: %w", n.Path, err)
			}
		case KFifo:
			if err := unix.Mknod(p, unix.S_IFIFO|0o600, 0); err != nil {
				return fmt.Errorf("mkfifo %s: %w", n.Path, err)
			}
		case KChar:
			if err := unix.Mknod(p, unix.S_IFCHR|0o600, int(unix.Mkdev(n.Major, n.Minor))); err != nil {
				return fmt.Errorf("mknod %s: %w", n.Path, err)
			}
		case KBlock:
			if err := unix.Mknod(p, unix.S_IFBLK|0o600, int(unix.Mkdev(n.Major, n.Minor))); err != nil {
				return fmt.Errorf("mknod %s: %w", n.Path, err)
			}
		case KSocket:
			if err := unix.Mknod(p, unix.S_IFSOCK|0o600, 0); err != nil {
				return fmt.Errorf("mksock %s: %w", n.Path, err)
			}
		}
	}
	// metadata: owner, mode, xattrs; then times children-first
	for i := range t.Nodes {
		n := &t.Nodes[i]
		if n.LinkTo != "" {
			continue
		}
		p := filepath.Join(root, filepath.FromSlash(n.Path))
		if err := unix.Lchown(p, int(n.Uid), int(n.Gid)); err != nil {
			return fmt.Errorf("lchown %s: %w", n.Path, err)
		}
		// xattrs after the owner (chown drops security.capability) and before the final
		// mode (a read-only mode does not matter for root)
		for k, v := range n.Xattrs {
			if err := unix.Lsetxattr(p, k, v, 0); err != nil {
				return fmt.Errorf("lsetxattr %s %s: %w", n.Path, k, err)
			}
		}
		if n.Kind != KSymlink {
			if err := unix.Chmod(p, n.Perm&0o7777); err != nil {
				return fmt.Errorf("chmod %s: %w", n.Path, err)
			}
		}
	}
	for i := len(t.Nodes) - 1; i >= 0; i-- {
		n := &t.Nodes[i]
		if n.LinkTo != "" {
			continue
		}
		if n.MtimeFar != 0 {
			ts := unix.Timespec{Sec: n.MtimeFar, Nsec: n.Mtime % 1e9}
			if err := unix.UtimesNanoAt(unix.AT_FDCWD, filepath.Join(root, filepath.FromSlash(n.Path)), []unix.Timespec{ts, ts}, unix.AT_SYMLINK_NOFOLLOW); err != nil {
				return fmt.Errorf("utimes %s: %w", n.Path, err)
			}
			continue
		}
		if err := SetMtime(filepath.Join(root, filepath.FromSlash(n.Path)), n.Mtime); err != nil {
			return fmt.Errorf("utimes %s: %w", n.Path, err)
		}
	}
	return nil
}

func SetMtime(p string, ns int64) error {
	ts := []unix.Timespec{unix.NsecToTimespec(ns), unix.NsecToTimespec(ns)}
	return unix.UtimesNanoAt(unix.AT_FDCWD, p, ts, unix.AT_SYMLINK_NOFOLLOW)
}

// Entry is what the independent observer records per path.
type Entry struct {
	Kind  Kind
	Perm  uint32 // 12 bits
	Uid   uint32
	Gid   uint32
	Size  int64
	Mtime int64
	// MtimeSec: the whole-second part as the kernel reports it (Mtime wraps for
	// instants outside 1677..2262)
	MtimeSec int64
	Ctime    int64
	Target   string
	Major    uint32
	Minor    uint32
	Dev      uint64
	Ino      uint64
	Nlink    uint64
	Xattrs   map[string]string
	Sha      string // regular files
}

type Snap map[string]*Entry

func kindOf(mode uint32) Kind {
	switch mode & unix.S_IFMT {
	case unix.S_IFDIR:
		return KDir
	case unix.S_IFLNK:
		return KSymlink
	case unix.S_IFIFO:
		return KFifo
	case unix.S_IFCHR:
		return KChar
	case unix.S_IFBLK:
		return KBlock
	case unix.S_IFSOCK:
		return KSocket
	}
	return KFile
}

// LstatEntry observes a single path without following links.
func LstatEntry(p string, withContent bool) (*Entry, error) {
	var st unix.Stat_t
	if err := unix.Lstat(p, &st); err != nil {
		return nil, err
	}
	e := &Entry{
		Kind: kindOf(st.Mode), Perm: st.Mode & 0o7777, Uid: st.Uid, Gid: st.Gid, Size: st.Size,
		Mtime: st.Mtim.Nano(), MtimeSec: int64(st.Mtim.Sec), Ctime: st.Ctim.Nano(), Dev: st.Dev, Ino: st.Ino, Nlink: uint64(st.Nlink),
	}
	switch e.Kind {
	case KSymlink:
		buf := make([]byte, 4096)
		n, err := unix.Readlink(p, buf)
		if err != nil {
			return nil, err
		}
		e.Target = string(buf[:n])
	case KChar, KBlock:
		e.Major, e.Minor = unix.Major(st.Rdev), unix.Minor(st.Rdev)
	case KFile:
		if withContent {
			// O_NOFOLLOW: never read through a link
			fd, err := unix.Open(p, unix.O_RDONLY|unix.O_NOFOLLOW|unix.O_NONBLOCK, 0)
			if err != nil {
				return nil, fmt.Errorf("open %s: %w", p, err)
			}
			f := os.NewFile(uintptr(fd), p)
			h := sha256.New()
			buf := make([]byte, 64*1024)
			for {
				n, err := f.Read(buf)
				h.Write(buf[:n])
				if err != nil {
					break
				}
			}
			f.Close()
			e.Sha = hex.EncodeToString(h.Sum(nil))
		}
	}
	e.Xattrs = lxattrs(p)
	return e, nil
}

func lxattrs(p string) map[string]string {
	sz, err := unix.Llistxattr(p, nil)
	if err != nil || sz <= 0 {
		return nil
	}
	buf := make([]byte, sz+256)
	sz, err = unix.Llistxattr(p, buf)
	if err != nil || sz <= 0 {
		return nil
	}
	out := map[string]string{}
	for _, k := range bytes.Split(buf[:sz], []byte{0}) {
		if len(k) == 0 {
			continue
		}
		vs, err := unix.Lgetxattr(p, string(k), nil)
		if err != nil {
			continue
		}
		v := make([]byte, vs+16)
		vs, err = unix.Lgetxattr(p, string(k), v)
		if err != nil {
			continue
		}
		out[string(k)] = string(v[:vs])
	}
	if len(out) == 0 {
		return nil
	}
	return out
}

// Snapshot walks root with its own readdir+lstat recursion. The root itself is
// recorded under ".".
func Snapshot(root string) (Snap, error) {
	s := Snap{}
	e, err := LstatEntry(root, false)
	if err != nil {
		return nil, err
	}
	s["."] = e
	if e.Kind != KDir {
		return s, nil
	}
	if err := snapDir(s, root, ""); err != nil {
		return nil, err
	}
	return s, nil
}

func snapDir(s Snap, root, rel string) error {
	dir := filepath.Join(root, filepath.FromSlash(rel))
	f, err := os.Open(dir)
	if err != nil {
		return err
	}
	names, err := f.Readdirnames(-1)
	f.Close()
	if err != nil {
		return err
	}
	for _, name := range names {
		r := name
		if rel != "" {
			r = rel + "/" + name
		}
		e, err := LstatEntry(filepath.Join(dir, name), true)
		if err != nil {
			return err
		}
		s[r] = e
		if e.Kind == KDir {
			if err := snapDir(s, root, r); err != nil {
				return err
			}
		}
	}
	return nil
}

// Paths returns the snapshot's paths (without ".") in reference order.
func (s Snap) Paths() []string {
	out := make([]string, 0, len(s))
	for p := range s {
		if p != "." {
			out = append(out, p)
		}
	}
	sort.Slice(out, func(i, j int) bool { return CmpComponents(out[i], out[j]) < 0 })
	return out
}

// LinkGroups returns the partition of regular files by inode: for every
// regular file, the reference-order-first path that shares its inode.
func (s Snap) LinkGroups() map[string]string {
	first := map[[2]uint64]string{}
	out := map[string]string{}
	for _, p := range s.Paths() {
		e := s[p]
		if e.Kind != KFile {
			continue
		}
		k := [2]uint64{e.Dev, e.Ino}
		if f, ok := first[k]; ok {
			out[p] = f
		} else {
			first[k] = p
			out[p] = p
		}
	}
	return out
}

// ExpectedSnap computes what an exact replica of the model tree looks like to
// the observer (no inode/ctime information).
func ExpectedSnap(t *Tree) Snap {
	s := Snap{}
	idx := t.Index()
	for i := range t.Nodes {
		n := &t.Nodes[i]
		src := n
		if n.LinkTo != "" {
			src = idx[n.LinkTo]
		}
		e := &Entry{Kind: n.Kind, Perm: src.Perm & 0o7777, Uid: src.Uid, Gid: src.Gid, Mtime: src.Mtime, MtimeSec: floorSec(src.Mtime)}
		if src.MtimeFar != 0 {
			e.MtimeSec = src.MtimeFar
			e.Mtime = src.MtimeFar*1e9 + src.Mtime%1e9 // wraps exactly like the observer's value
		}
		switch n.Kind {
		case KFile:
			e.Size = int64(src.Size)
			h := sha256.Sum256(Content(src.Seed, src.Size))
			e.Sha = hex.EncodeToString(h[:])
		case KSymlink:
			e.Target = n.Target
			e.Size = int64(len(n.Target))
			e.Perm = 0o777
		case KChar, KBlock:
			e.Major, e.Minor = n.Major, n.Minor
		}
		if len(src.Xattrs) > 0 {
			e.Xattrs = map[string]string{}
			for k, v := range src.Xattrs {
				e.Xattrs[k] = string(v)
			}
		}
		s[n.Path] = e
	}
	return s
}

// ExpectedGroups returns path -> first member for regular files of the model.
func ExpectedGroups(t *Tree) map[string]string {
	out := map[string]string{}
	for _, n := range t.Nodes {
		if n.Kind != KFile {
			continue
		}
		if n.LinkTo != "" {
			out[n.Path] = n.LinkTo
		} else {
			out[n.Path] = n.Path
		}
	}
	return out
}

// ExpectedGroupsAll is ExpectedGroups over every entry that can have several
// names: regular files and special files (fifos, devices, sockets).
func ExpectedGroupsAll(t *Tree) map[string]string {
	out := map[string]string{}
	for _, n := range t.Nodes {
		if n.Kind == KDir || n.Kind == KSymlink {
			continue
		}
		if n.LinkTo != "" {
			out[n.Path] = n.LinkTo
		} else {
			out[n.Path] = n.Path
		}
	}
	return out
}

// CmpOpt selects which fields DiffSnap compares.
type CmpOpt struct {
	DirMtime     func(path string) bool // compare mtime of this directory?
	DirXattrs    func(path string) bool
	FileXattrs   func(path string) bool // nil = compare xattrs of every regular file
	AllXattrs    bool                   // compare xattrs of symlinks and special files too
	AllDirMtime  bool                   // compare every directory's mtime
	AllDirXattrs bool
	SkipMtime    bool
	SkipXattrs   bool
	SkipOwner    bool
	SecondMtime  bool // compare mtimes at second granularity
	Ignore       func(path string) bool
	// ExtraXattrsOK: for these paths only the attributes the wanted entry has are
	// compared; further attributes on the entry found are not judged (a new name
	// of an inode that was there before and keeps what it carried)
	ExtraXattrsOK func(path string) bool
}

// DiffSnap compares got against want (two-directional on the path set).
func DiffSnap(got, want Snap, o CmpOpt) *Errs {
	var errs Errs
	for _, p := range want.Paths() {
		if o.Ignore != nil && o.Ignore(p) {
			continue
		}
		if _, ok := got[p]; !ok {
			errs.Addf("missing %q (want %s)", p, want[p].Kind)
		}
	}
	for _, p := range got.Paths() {
		if o.Ignore != nil && o.Ignore(p) {
			continue
		}
		g := got[p]
		w, ok := want[p]
		if !ok {
			errs.Addf("extra %q (%s)", p, g.Kind)
			continue
		}
		if g.Kind != w.Kind {
			errs.Addf("%q: kind %s want %s", p, g.Kind, w.Kind)
			continue
		}
		if g.Kind != KSymlink && g.Perm != w.Perm {
			errs.Addf("%q: mode %04o want %04o", p, g.Perm, w.Perm)
		}
		if !o.SkipOwner && (g.Uid != w.Uid || g.Gid != w.Gid) {
			errs.Addf("%q: owner %d:%d want %d:%d", p, g.Uid, g.Gid, w.Uid, w.Gid)
		}
		switch g.Kind {
		case KFile:
			if g.Size != w.Size || g.Sha != w.Sha {
				errs.Addf("%q: content size %d sha %.8s want size %d sha %.8s", p, g.Size, g.Sha, w.Size, w.Sha)
			}
		case KSymlink:
			if g.Target != w.Target {
				errs.Addf("%q: target %q want %q", p, g.Target, w.Target)
			}
		case KChar, KBlock:
			if g.Major != w.Major || g.Minor != w.Minor {
				errs.Addf("%q: dev %d:%d want %d:%d", p, g.Major, g.Minor, w.Major, w.Minor)
			}
		}
		cmpMtime := !o.SkipMtime
		cmpX := !o.SkipXattrs
		if g.Kind == KDir {
			cmpMtime = cmpMtime && (o.AllDirMtime || o.DirMtime != nil && o.DirMtime(p))
			cmpX = cmpX && (o.AllDirXattrs || o.DirXattrs != nil && o.DirXattrs(p))
		} else if g.Kind != KFile {
			cmpX = cmpX && o.AllXattrs // C01 promises xattrs of regular files and directories only
		} else if o.FileXattrs != nil {
			cmpX = cmpX && o.FileXattrs(p)
		}
		if cmpMtime {
			gm, wm := g.Mtime, w.Mtime
			if o.SecondMtime {
				gm, wm = gm/1e9, wm/1e9
			}
			if gm != wm || (!o.SecondMtime && g.MtimeSec != w.MtimeSec) {
				errs.Addf("%q: mtime %d (second %d) want %d (second %d)", p, g.Mtime, g.MtimeSec, w.Mtime, w.MtimeSec)
			}
		}
		if cmpX && !sameX(g.Xattrs, w.Xattrs) {
			if o.ExtraXattrsOK != nil && o.ExtraXattrsOK(p) {
				sub := map[string]string{}
				for k := range w.Xattrs {
					if v, ok := g.Xattrs[k]; ok {
						sub[k] = v
					}
				}
				if sameX(sub, w.Xattrs) {
					continue
				}
			}
			errs.Addf("%q: xattrs %q want %q", p, g.Xattrs, w.Xattrs)
		}
	}
	return &errs
}

func sameX(a, b map[string]string) bool {
	if len(a) != len(b) {
		return false
	}
	for k, v := range a {
		if w, ok := b[k]; !ok || w != v {
			return false
		}
	}
	return true
}

// DiffGroups compares the hard-link partition of got with the expected one.
func DiffGroups(got Snap, want map[string]string, errs *Errs) {
	gg := got.LinkGroups()
	for p, wf := range want {
		gf, ok := gg[p]
		if !ok {
			continue // reported as missing / wrong kind elsewhere
		}
		if gf != wf {
			errs.Addf("%q: hard-link group first member %q want %q", p, gf, wf)
		}
	}
}

// SameEntry reports whether two observations of one path are identical in
// everything including inode and ctime ("untouched").
func SameEntry(a, b *Entry, withCtime bool) bool {
	if a.Kind != b.Kind || a.Perm != b.Perm || a.Uid != b.Uid || a.Gid != b.Gid || a.Size != b.Size || a.Mtime != b.Mtime || a.MtimeSec != b.MtimeSec ||
		a.Target != b.Target || a.Major != b.Major || a.Minor != b.Minor || a.Ino != b.Ino || a.Dev != b.Dev || a.Sha != b.Sha || !sameX(a.Xattrs, b.Xattrs) {
		return false
	}
	if withCtime && a.Ctime != b.Ctime {
		return false
	}
	return true
}

var _ = syscall.EINVAL

// OtherFSDir creates a scratch directory on a file system other than the one
// holding `near` (different st_dev), or returns "" if none of the candidates
// qualifies. The caller removes it.
func OtherFSDir(near string) string {
	var st, ct unix.Stat_t
	if unix.Stat(near, &st) != nil {
		return ""
	}
	for _, cand := range []string{"/dev/shm", "/var/tmp"} {
		if unix.Stat(cand, &ct) != nil || ct.Dev == st.Dev {
			continue
		}
		d, err := os.MkdirTemp(cand, "verif-otherfs-")
		if err != nil {
			continue
		}
		return d
	}
	return ""
}

func floorSec(ns int64) int64 {
	s := ns / 1e9
	if ns%1e9 < 0 {
		s--
	}
	return s
}
