package harness

import (
	"strings"
)

// Reference symlink resolver on the tree model: chroot-style, component-wise,
// ".." clamped at the root, absolute targets restart at the root, hop limit 64.

type Resolved struct {
	Traversed []string // symlink paths traversed, in order
	Final     string   // location reached ("" = root); if !Exists the path that is missing
	Exists    bool
	Loop      bool
	NotDir    bool // a non-directory was met in a middle component
}

func joinRel(dir, name string) string {
	if dir == "" {
		return name
	}
	return dir + "/" + name
}

func parentRel(p string) string {
	if i := strings.LastIndex(p, "/"); i >= 0 {
		return p[:i]
	}
	return ""
}

// ResolveIn resolves p (relative or '/'-rooted) inside the tree as if the tree
// root were '/'. followLast decides whether a symlink in the last component is
// followed.
func ResolveIn(t *Tree, p string, followLast bool) Resolved {
	idx := t.Index()
	var res Resolved
	comps := splitComps(p)
	cur := ""
	hops := 0
	for len(comps) > 0 {
		c := comps[0]
		comps = comps[1:]
		switch c {
		case "", ".":
			continue
		case "..":
			cur = parentRel(cur)
			continue
		}
		next := joinRel(cur, c)
		n, ok := idx[next]
		if !ok {
			res.Final = joinRel(next, strings.Join(comps, "/"))
			res.Final = strings.TrimSuffix(res.Final, "/")
			return res
		}
		if n.Kind == KSymlink && (len(comps) > 0 || followLast) {
			res.Traversed = append(res.Traversed, next)
			hops++
			if hops > 64 {
				res.Loop = true
				res.Final = next
				return res
			}
			tc := splitComps(n.Target)
			if strings.HasPrefix(n.Target, "/") {
				cur = ""
			}
			comps = append(tc, comps...)
			continue
		}
		if n.Kind != KDir && len(comps) > 0 {
			// remaining components below a non-directory
			rest := false
			for _, r := range comps {
				if r != "" && r != "." {
					rest = true
				}
			}
			if rest {
				res.NotDir = true
				res.Final = next
				return res
			}
		}
		cur = next
	}
	res.Final = cur
	res.Exists = true
	return res
}

func splitComps(p string) []string {
	var out []string
	for _, c := range strings.Split(p, "/") {
		if c != "" {
			out = append(out, c)
		}
	}
	return out
}
