package harness

import (
	"encoding/base64"
	"encoding/json"
	"unicode/utf8"
)

// BStr is a string that survives JSON even when it is not valid UTF-8 (replay
// files must reproduce names byte for byte).
type BStr string

func (b BStr) MarshalJSON() ([]byte, error) {
	if utf8.ValidString(string(b)) {
		return json.Marshal(string(b))
	}
	return json.Marshal(map[string]string{"b64": base64.StdEncoding.EncodeToString([]byte(b))})
}

func (b *BStr) UnmarshalJSON(dt []byte) error {
	var s string
	if err := json.Unmarshal(dt, &s); err == nil {
		*b = BStr(s)
		return nil
	}
	var m map[string]string
	if err := json.Unmarshal(dt, &m); err != nil {
		return err
	}
	raw, err := base64.StdEncoding.DecodeString(m["b64"])
	if err != nil {
		return err
	}
	*b = BStr(raw)
	return nil
}
