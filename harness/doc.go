// Package harness holds the shared verification machinery: tree model and
// generators, materialiser, independent snapshotter, synthetic source,
// harness stream, reference specifications and the case runner.
package harness
