package harness

import (
	"fmt"
	"io"
	"os"
	"sync"
	"time"

	"github.com/tonistiigi/fsutil/types"
)

// Reference receiver: an independent implementation of the receiving side of
// the protocol, written from the protocol description at the top of
// receive.go and types/wire.proto only. It drives the real Send (C06).

// ReqScript tells the reference receiver what to request.
type ReqScript struct {
	// Order lists which requestable entries to request, as indices into the
	// sequence of requestable (regular, non-link) announced entries, in the order
	// the requests are issued. Indices beyond what is announced are ignored.
	Order []int `json:"order"`
	// Eager: issue a request as soon as its id has been announced (requests race
	// the STAT stream); otherwise all requests follow the end-of-stats marker.
	Eager bool `json:"eager"`
	// Illegal, if non-empty, is sent after IllegalAfter legal requests:
	// "unknown" (id beyond everything announced), "nonfile" (a directory,
	// symlink or special entry), "duplicate" (an id requested before).
	Illegal      string `json:"illegal,omitempty"`
	IllegalAfter int    `json:"illegal_after,omitempty"`
	// ReadDelayUS slows the reader down (microseconds per packet).
	ReadDelayUS int `json:"read_delay_us,omitempty"`
	// Inline: a single-threaded receiver - it does not read the next packet
	// while a request it can already issue has not been written to the stream.
	Inline bool `json:"inline,omitempty"`
	// ReqLinks: hard-link members (regular files announced with a link name) count
	// as requestable too - they are regular files of the STAT sequence
	ReqLinks bool `json:"req_links,omitempty"`
}

// RefRecvResult is what the reference receiver observed.
type RefRecvResult struct {
	Stats           []*types.Stat
	StatsDone       bool
	Requested       []uint32 // legal ids requested, in order
	IllegalID       int64    // -1 = none sent
	Data            map[uint32][]byte
	Closed          map[uint32]int // terminators seen per id
	AfterClose      map[uint32]int // DATA packets seen after the terminator
	Unrequested     []uint32       // DATA for ids never requested
	FinSent         bool
	FinEchoes       int
	PacketsAfterFin int
	ErrPacket       string
	EndErr          error // what RecvMsg finally returned
	ProtoErr        string
}

// RunRefReceiver talks to the sender through end (the receiver endpoint of a
// pair) until the stream ends. It never gives up on its own: termination comes
// from the transport model only.
func RunRefReceiver(end *End, sc ReqScript) *RefRecvResult {
	res := &RefRecvResult{Data: map[uint32][]byte{}, Closed: map[uint32]int{}, AfterClose: map[uint32]int{}, IllegalID: -1}
	var mu sync.Mutex
	cond := sync.NewCond(&mu)
	var requestable []uint32 // ids of regular non-link entries, in announcement order
	var nonfile []uint32
	requestedSet := map[uint32]bool{}
	readerDone := false
	sent := 0       // requests of sc.Order issued or skipped so far (under mu)
	inSend := false // the requester is inside SendMsg (under mu)
	var wg sync.WaitGroup
	wg.Add(2)
	// requester
	go func() {
		defer wg.Done()
		defer func() {
			mu.Lock()
			inSend = false
			sent = len(sc.Order)
			cond.Broadcast()
			mu.Unlock()
		}()
		illegalSent := sc.Illegal == ""
		for {
			mu.Lock()
			var id uint32
			var kind string
			for {
				if readerDone {
					mu.Unlock()
					return
				}
				if !illegalSent && sent >= sc.IllegalAfter && (sc.Illegal != "duplicate" || len(res.Requested) > 0) && (sc.Illegal != "nonfile" || len(nonfile) > 0) && (sc.Illegal != "unknown" || res.StatsDone) {
					kind = "illegal"
					switch sc.Illegal {
					case "unknown":
						id = uint32(len(res.Stats)) + 3
					case "nonfile":
						id = nonfile[0]
					case "duplicate":
						id = res.Requested[0]
					}
					break
				}
				if sent < len(sc.Order) {
					idx := sc.Order[sent]
					if idx < len(requestable) && (sc.Eager || res.StatsDone) {
						id, kind = requestable[idx], "req"
						if requestedSet[id] { // a script never asks twice by itself
							sent++
							continue
						}
						break
					}
					if res.StatsDone && idx >= len(requestable) {
						sent++ // nothing to request for this index
						continue
					}
				} else if res.StatsDone && illegalSent {
					// all requests issued: FIN once every requested id is terminated
					all := true
					for id := range requestedSet {
						if res.Closed[id] == 0 {
							all = false
						}
					}
					if all {
						kind = "fin"
						break
					}
				} else if res.StatsDone && !illegalSent && (sc.Illegal == "duplicate" && len(res.Requested) == 0 || sc.Illegal == "nonfile" && len(nonfile) == 0) {
					illegalSent = true // the illegal request cannot be formed for this view
					continue
				}
				cond.Wait()
			}
			switch kind {
			case "req":
				requestedSet[id] = true
				res.Requested = append(res.Requested, id)
				sent++
			case "illegal":
				res.IllegalID = int64(id)
				illegalSent = true
			case "fin":
				res.FinSent = true
			}
			inSend = true
			mu.Unlock()
			var err error
			if kind == "fin" {
				err = end.SendMsg(&types.Packet{Type: types.PACKET_FIN})
			} else {
				err = end.SendMsg(&types.Packet{Type: types.PACKET_REQ, ID: id})
			}
			mu.Lock()
			inSend = false
			cond.Broadcast()
			mu.Unlock()
			if err != nil || kind == "fin" {
				return
			}
		}
	}()
	// reader
	go func() {
		defer wg.Done()
		defer func() {
			mu.Lock()
			readerDone = true
			cond.Broadcast()
			mu.Unlock()
		}()
		for {
			var p types.Packet
			err := end.RecvMsg(&p)
			if err != nil {
				mu.Lock()
				res.EndErr = err
				mu.Unlock()
				return
			}
			if sc.ReadDelayUS > 0 {
				time.Sleep(time.Duration(sc.ReadDelayUS) * time.Microsecond)
			}
			mu.Lock()
			if res.FinEchoes > 0 {
				res.PacketsAfterFin++
			}
			switch p.Type {
			case types.PACKET_STAT:
				if p.Stat == nil {
					if res.StatsDone {
						res.ProtoErr = "second end-of-stats marker"
					}
					res.StatsDone = true
				} else {
					if res.StatsDone {
						res.ProtoErr = "STAT after the end-of-stats marker"
					}
					id := uint32(len(res.Stats))
					res.Stats = append(res.Stats, p.Stat)
					if os.FileMode(p.Stat.Mode)&os.ModeType == 0 && (p.Stat.Linkname == "" || sc.ReqLinks) {
						requestable = append(requestable, id)
					} else if os.FileMode(p.Stat.Mode)&os.ModeType != 0 {
						nonfile = append(nonfile, id)
					}
				}
			case types.PACKET_DATA:
				if !requestedSet[p.ID] && int64(p.ID) != res.IllegalID {
					res.Unrequested = append(res.Unrequested, p.ID)
				}
				if res.Closed[p.ID] > 0 {
					if len(p.Data) == 0 {
						res.Closed[p.ID]++
					} else {
						res.AfterClose[p.ID]++
					}
				} else if len(p.Data) == 0 {
					res.Closed[p.ID]++
				} else {
					res.Data[p.ID] = append(res.Data[p.ID], p.Data...)
				}
			case types.PACKET_FIN:
				res.FinEchoes++
			case types.PACKET_ERR:
				res.ErrPacket = string(p.Data)
			default:
				res.ProtoErr = fmt.Sprintf("unexpected packet type %v from sender", p.Type)
			}
			cond.Broadcast()
			for sc.Inline && !readerDone {
				pending := inSend
				if !pending && sent < len(sc.Order) {
					idx := sc.Order[sent]
					pending = idx < len(requestable) && (sc.Eager || res.StatsDone)
				}
				if !pending {
					break
				}
				cond.Wait()
			}
			mu.Unlock()
		}
	}()
	wg.Wait()
	return res
}

var _ = io.EOF
