package harness

import (
	"encoding/json"
	"errors"
	"flag"
	"fmt"
	"hash/fnv"
	"os"
	"path/filepath"
	"runtime/debug"
	"sort"
	"strconv"
	"strings"
	"sync"
	"syscall"
	"testing"
	"time"

	"pgregory.net/rapid"
)

// Env is handed to every check execution. It owns the per-case scratch
// directory and the coverage accounting of the run.
type Env struct {
	R       *Runner
	Scratch string // per-case scratch directory (removed after the case)
	// DstOtherFS asks syncSetup to put the destination on a file system other
	// than the one that holds the scratch directory (and TMPDIR)
	DstOtherFS bool
	cleanup    []func()

	nontrivial bool
	classes    []string
	known      []string
	note       map[string]any
}

// Defer registers fn to run when the case is over.
func (e *Env) Defer(fn func()) { e.cleanup = append(e.cleanup, fn) }

// Class records that the case belongs to a named class (histogram in evidence).
func (e *Env) Class(name string) { e.classes = append(e.classes, name) }

// NonTrivial marks the case as non-trivial by the property's stated rule.
func (e *Env) NonTrivial() { e.nontrivial = true }

// Note attaches a small observation to the sample written to evidence.
func (e *Env) Note(k string, v any) {
	if e.note == nil {
		e.note = map[string]any{}
	}
	e.note[k] = v
}

// Known is called when an oracle mismatch has been classified as root cause
// `class`. If known_findings.json lists that class for this property as a
// known (unrepaired) finding, the case is counted as excluded and nil is
// returned so the search continues; otherwise the mismatch is a violation.
func (e *Env) Known(class string, format string, args ...any) error {
	msg := fmt.Sprintf(format, args...)
	if e.R.knownClasses[class] {
		e.known = append(e.known, class)
		return nil
	}
	return fmt.Errorf("[%s] %s", class, msg)
}

// IsKnown reports whether class is a listed known finding for this property.
func (e *Env) IsKnown(class string) bool { return e.R.knownClasses[class] }

// Tier returns "quick" or "thorough".
func (e *Env) Tier() string { return e.R.Tier }

type knownFinding struct {
	Property string `json:"property"`
	Status   string `json:"status"` // known | fixed
	Class    string `json:"class"`
	Commit   string `json:"commit,omitempty"`
	Witness  string `json:"witness"`
	Kind     string `json:"kind"`
	Retries  int    `json:"retries,omitempty"` // schedule-dependent witnesses: replay up to this many times until the finding shows
	What     string `json:"what"`
}

// Runner accumulates statistics for one property in one process.
type Runner struct {
	ID   string
	Tier string
	Seed uint64

	mu           sync.Mutex
	evals        int
	ntHashes     map[uint64]struct{}
	classes      map[string]int
	excluded     map[string]int
	samples      []any
	sampleBudget int
	knownClasses map[string]bool
	findings     []knownFinding
	violations   int
	extra        map[string]any
	start        time.Time
	caseNo       int
	curKind      string
}

func verifRoot() string {
	if d := os.Getenv("VERIF_ROOT"); d != "" {
		return d
	}
	return "/verif"
}

func NewRunner(id string) *Runner {
	r := &Runner{
		ID: id, Tier: os.Getenv("VERIF_TIER"),
		ntHashes: map[uint64]struct{}{}, classes: map[string]int{}, excluded: map[string]int{},
		knownClasses: map[string]bool{}, extra: map[string]any{}, sampleBudget: 4, start: time.Now(),
	}
	if r.Tier == "" {
		r.Tier = "quick"
	}
	if s := os.Getenv("VERIF_SEED"); s != "" {
		r.Seed, _ = strconv.ParseUint(s, 10, 64)
	}
	dt, err := os.ReadFile(filepath.Join(verifRoot(), "known_findings.json"))
	if err == nil {
		var all struct {
			Findings []knownFinding `json:"findings"`
		}
		if err := json.Unmarshal(dt, &all); err != nil {
			panic("known_findings.json: " + err.Error())
		}
		for _, f := range all.Findings {
			if f.Property != id {
				continue
			}
			r.findings = append(r.findings, f)
			if f.Status == "known" {
				r.knownClasses[f.Class] = true
			}
		}
	}
	return r
}

// Thorough reports whether the thorough tier is running.
func (r *Runner) Thorough() bool { return r.Tier == "thorough" }

// Extra records an additional coverage key in the evidence.
func (r *Runner) Extra(k string, v any) {
	r.mu.Lock()
	r.extra[k] = v
	r.mu.Unlock()
}

// AddExtra adds to a numeric coverage key.
func (r *Runner) AddExtra(k string, n int) {
	r.mu.Lock()
	cur, _ := r.extra[k].(int)
	r.extra[k] = cur + n
	r.mu.Unlock()
}

func hashCase(c any) uint64 {
	dt, _ := json.Marshal(c)
	h := fnv.New64a()
	h.Write(dt)
	return h.Sum64()
}

func abbreviate(c any) any {
	dt, err := json.Marshal(c)
	if err != nil {
		return fmt.Sprintf("%+v", c)
	}
	if len(dt) > 3000 {
		return string(dt[:3000]) + "...(truncated)"
	}
	var v any
	json.Unmarshal(dt, &v)
	return v
}

func scratchBase() string {
	if d := os.Getenv("VERIF_SCRATCH"); d != "" {
		return d
	}
	if fi, err := os.Stat("/dev/shm"); err == nil && fi.IsDir() {
		return "/dev/shm"
	}
	return os.TempDir()
}

// exec runs one case through check with accounting. It returns the check's
// error (nil = property held on this case).
func exec1[C any](r *Runner, c *C, check func(*Env, *C) error) (err error) {
	r.mu.Lock()
	r.caseNo++
	n := r.caseNo
	r.mu.Unlock()
	dir := filepath.Join(scratchBase(), fmt.Sprintf("vf-%s-%d-%d", r.ID, os.Getpid(), n))
	if e := os.MkdirAll(dir, 0o755); e != nil {
		panic(e)
	}
	env := &Env{R: r, Scratch: dir}
	defer func() {
		for _, fn := range env.cleanup {
			fn()
		}
		RemoveAllForce(dir)
	}()
	func() {
		// a panic in the code under test is a failure of the case, with a replay file
		defer func() {
			if p := recover(); p != nil {
				if inc, ok := p.(Inconclusive); ok {
					panic(inc)
				}
				err = fmt.Errorf("panic: %v\n%s", p, debug.Stack())
			}
		}()
		err = check(env, c)
	}()
	if fs := os.Getenv("VERIF_DISKFS"); fs != "" {
		env.Class("fs-" + fs)
		var he *HarnessError
		if errors.As(err, &he) && fsLimit(he) {
			// the case needs something this file system cannot store (an xattr
			// larger than an ext4 inode/block allows): skipped and counted, the
			// tmpfs shards cover it
			env.Class("fs-" + fs + "-cannot-store-case")
			env.nontrivial = false
			err = nil
		}
	}
	r.mu.Lock()
	defer r.mu.Unlock()
	r.evals++
	for _, cl := range env.classes {
		r.classes[cl]++
	}
	for _, k := range env.known {
		r.excluded[k]++
	}
	if err == nil && env.nontrivial && len(env.known) == 0 {
		h := hashCase(c)
		if _, ok := r.ntHashes[h]; !ok {
			r.ntHashes[h] = struct{}{}
			if len(r.samples) < r.sampleBudget {
				s := map[string]any{"case": abbreviate(c)}
				if env.note != nil {
					s["observed"] = env.note
				}
				r.samples = append(r.samples, s)
			}
		}
	}
	return err
}

func writeReplay(r *Runner, c any, err error) string {
	out := os.Getenv("VERIF_REPLAY_OUT")
	if out == "" {
		out = filepath.Join(scratchBase(), fmt.Sprintf("replay-%s-%d.json", r.ID, os.Getpid()))
	}
	os.MkdirAll(filepath.Dir(out), 0o755)
	doc := map[string]any{"property": r.ID, "kind": r.curKind, "error": err.Error(), "case": c}
	dt, _ := json.MarshalIndent(doc, "", " ")
	os.WriteFile(out, dt, 0o644)
	return out
}

// Run is the entry point of a property: it replays known-finding witnesses,
// then either replays one file (VERIF_REPLAY) or drives gen/check with rapid.
func Run[C any](t *testing.T, id string, gen func(*rapid.T) *C, check func(*Env, *C) error) {
	r := NewRunner(id)
	defer r.Finish(t)
	RunWith(t, r, "", gen, check)
}

// RunWith is Run with a caller-owned Runner (so a test can add tiers).
func RunWith[C any](t *testing.T, r *Runner, kind string, gen func(*rapid.T) *C, check func(*Env, *C) error) {
	if p := os.Getenv("VERIF_REPLAY"); p != "" {
		if k := replayKind(p); k != kind {
			return
		}
		c, err := loadCase[C](p)
		if err != nil {
			t.Fatalf("replay: %v", err)
		}
		if err := exec1(r, c, check); err != nil {
			r.violations++
			fmt.Printf("REPLAY-FAIL property=%s file=%s: %v\n", r.ID, p, err)
			t.Fail()
		} else {
			fmt.Printf("REPLAY-PASS property=%s file=%s\n", r.ID, p)
		}
		return
	}
	r.curKind = kind
	if !witnesses(t, r, kind, check) {
		return
	}
	rapid.Check(t, func(rt *rapid.T) {
		c := gen(rt)
		if err := exec1(r, c, check); err != nil {
			var he *HarnessError
			if errors.As(err, &he) {
				rt.Fatalf("inconclusive: %v", err)
			}
			f := writeReplay(r, c, err)
			r.mu.Lock()
			r.violations = 1
			r.mu.Unlock()
			rt.Fatalf("property %s violated: %v (replay %s)", r.ID, err, f)
		}
	})
}

func replayKind(p string) string {
	dt, err := os.ReadFile(p)
	if err != nil {
		return ""
	}
	var doc struct {
		Kind string `json:"kind"`
	}
	json.Unmarshal(dt, &doc)
	return doc.Kind
}

func loadCase[C any](p string) (*C, error) {
	dt, err := os.ReadFile(p)
	if err != nil {
		return nil, err
	}
	var doc struct {
		Case json.RawMessage `json:"case"`
	}
	if err := json.Unmarshal(dt, &doc); err != nil {
		return nil, err
	}
	c := new(C)
	if err := json.Unmarshal(doc.Case, c); err != nil {
		return nil, err
	}
	return c, nil
}

// witnesses replays the witness of every listed finding of this property whose
// kind matches. Only shard 0 does this. It returns false when a witness fails
// with something the findings file does not list.
func witnesses[C any](t *testing.T, r *Runner, kind string, check func(*Env, *C) error) bool {
	ok := true
	if s := os.Getenv("VERIF_SHARD"); s != "" && s != "0" {
		return true
	}
	for _, f := range r.findings {
		if f.Witness == "" || f.Kind != kind {
			continue
		}
		p := f.Witness
		if !filepath.IsAbs(p) {
			p = filepath.Join(verifRoot(), p)
		}
		c, err := loadCase[C](p)
		if err != nil {
			t.Errorf("witness %s: %v", p, err)
			return false
		}
		r.mu.Lock()
		before := r.excluded[f.Class]
		r.mu.Unlock()
		var cerr error
		hit := false
		for try := 0; try <= f.Retries && !hit && cerr == nil; try++ {
			if try > 0 {
				if c, err = loadCase[C](p); err != nil {
					break
				}
			}
			cerr = exec1(r, c, check)
			r.mu.Lock()
			hit = r.excluded[f.Class] > before
			r.mu.Unlock()
		}
		switch {
		case cerr != nil:
			// a listed witness now fails with something unlisted (or a fixed one is back)
			fmt.Printf("WITNESS-FAIL property=%s witness=%s status=%s: %v\n", r.ID, p, f.Status, cerr)
			r.mu.Lock()
			r.violations++
			r.extra["failed_witness"] = p
			r.mu.Unlock()
			t.Errorf("witness %s (%s %q): %v", p, f.Status, f.Class, cerr)
			ok = false
		case f.Status == "known" && hit:
			fmt.Printf("KNOWN-FINDING: property=%s %s\n", r.ID, f.What)
		case f.Status == "known":
			fmt.Printf("NOTE: property=%s listed finding %q does not reproduce on this tree\n", r.ID, f.Class)
		}
	}
	return ok
}

// Finish writes the per-process statistics file consumed by the driver.
func (r *Runner) Finish(t *testing.T) {
	out := os.Getenv("VERIF_STATS")
	if out == "" {
		return
	}
	r.mu.Lock()
	defer r.mu.Unlock()
	hs := make([]string, 0, len(r.ntHashes))
	for h := range r.ntHashes {
		hs = append(hs, strconv.FormatUint(h, 16))
	}
	sort.Strings(hs)
	doc := map[string]any{
		"property": r.ID, "tier": r.Tier, "evaluations": r.evals, "nontrivial_hashes": hs,
		"classes": r.classes, "excluded_known": r.excluded, "samples": r.samples,
		"violations": r.violations, "extra": r.extra, "wall_s": time.Since(r.start).Seconds(),
		"failed": t.Failed(),
	}
	dt, _ := json.Marshal(doc)
	os.WriteFile(out, dt, 0o644)
}

// Count registers an execution that did not go through exec1 (enumerators).
func (r *Runner) Count(c any, nontrivial bool, classes ...string) {
	r.mu.Lock()
	defer r.mu.Unlock()
	r.evals++
	for _, cl := range classes {
		r.classes[cl]++
	}
	if nontrivial {
		h := hashCase(c)
		if _, ok := r.ntHashes[h]; !ok {
			r.ntHashes[h] = struct{}{}
			if len(r.samples) < r.sampleBudget {
				r.samples = append(r.samples, map[string]any{"case": abbreviate(c)})
			}
		}
	}
}

// CountN registers n evaluations of which nt were distinct non-trivial, for
// enumerators that are too large to hash case by case (distinctness is by
// construction: an enumerator visits every element once).
func (r *Runner) CountN(n, nt int, class string) {
	r.mu.Lock()
	defer r.mu.Unlock()
	r.evals += n
	cur, _ := r.extra["enumerated_nontrivial"].(int)
	r.extra["enumerated_nontrivial"] = cur + nt
	if class != "" {
		r.classes[class] += n
	}
}

// Sample adds an explicit sample.
func (r *Runner) Sample(v any) {
	r.mu.Lock()
	defer r.mu.Unlock()
	if len(r.samples) < r.sampleBudget+4 {
		r.samples = append(r.samples, v)
	}
}

// Violation records a violation found outside rapid (enumerators, fuzz
// replays) and writes its replay file.
func (r *Runner) Violation(t *testing.T, c any, err error) {
	f := writeReplay(r, c, err)
	r.mu.Lock()
	r.violations++
	r.mu.Unlock()
	t.Errorf("property %s violated: %v (replay %s)", r.ID, err, f)
}

// RemoveAllForce removes a scratch tree even if it contains unreadable
// directories or immutable modes.
func RemoveAllForce(dir string) {
	if err := os.RemoveAll(dir); err == nil {
		return
	}
	filepath.Walk(dir, func(p string, fi os.FileInfo, err error) error {
		if err == nil && fi.IsDir() {
			os.Chmod(p, 0o700)
		}
		return nil
	})
	os.RemoveAll(dir)
}

// Errs collects mismatch lines and turns them into one error.
type Errs struct{ list []string }

func (e *Errs) Addf(format string, args ...any) {
	if len(e.list) < 40 {
		m := fmt.Sprintf(format, args...)
		if len(m) > 400 {
			m = m[:400] + "...(truncated)"
		}
		e.list = append(e.list, m)
	}
}
func (e *Errs) Len() int       { return len(e.list) }
func (e *Errs) List() []string { return e.list }
func (e *Errs) Err() error {
	if len(e.list) == 0 {
		return nil
	}
	return fmt.Errorf("%s", strings.Join(e.list, "; "))
}

// IsKnownClass reports whether class is a listed known finding.
func (r *Runner) IsKnownClass(class string) bool { return r.knownClasses[class] }

// HarnessError marks a failure of the machinery itself (scratch directory,
// materialiser, helper process). It is never reported as a violation: the
// driver maps it to "inconclusive" (exit 2).
type HarnessError struct{ Err error }

func (e *HarnessError) Error() string { return "harness error: " + e.Err.Error() }
func (e *HarnessError) Unwrap() error { return e.Err }

// Infra wraps err as a HarnessError (nil stays nil).
func Infra(err error) error {
	if err == nil {
		return nil
	}
	return &HarnessError{Err: err}
}

// RunOnce executes one case with full accounting (for fuzz targets that drive
// the same generator and oracle through rapid.MakeFuzz).
func RunOnce[C any](r *Runner, c *C, check func(*Env, *C) error) error {
	return exec1(r, c, check)
}

// ScaleChecks runs f with -rapid.checks scaled by num/den (at least 1): sub-runs
// whose cases are much more expensive than the main run's use a smaller count.
func ScaleChecks(num, den int, f func()) {
	fl := flag.Lookup("rapid.checks")
	if fl == nil {
		f()
		return
	}
	old := fl.Value.String()
	n, _ := strconv.Atoi(old)
	m := n * num / den
	if m < 1 {
		m = 1
	}
	flag.Set("rapid.checks", strconv.Itoa(m))
	defer flag.Set("rapid.checks", old)
	f()
}

// fsLimit: set-up failures that mean "this file system cannot hold the
// generated tree" rather than a broken harness.
func fsLimit(he *HarnessError) bool {
	return errors.Is(he, syscall.ENOSPC) || errors.Is(he, syscall.E2BIG) || errors.Is(he, syscall.ERANGE) || errors.Is(he, syscall.EOPNOTSUPP)
}
