package harness

import (
	"path"
	"strings"

	"pgregory.net/rapid"
)

// Edit operations on the tree model (pure). Each returns a short description.
// They are the mutations of C02's quantifier: rewrite same/different size,
// touch, chmod, chown, delete, add, rename, file<->dir<->symlink swaps,
// hard-link regrouping, device renumbering, and the identity-preserving edit
// "rewrite same size and restore mtime".

func (t *Tree) removeSubtree(p string) {
	out := t.Nodes[:0]
	for _, n := range t.Nodes {
		if n.Path == p || strings.HasPrefix(n.Path, p+"/") {
			continue
		}
		out = append(out, n)
	}
	t.Nodes = out
}

// fixLinksAfterRemoval turns links whose target vanished or changed kind into
// independent files (keeping the content they had), and re-elects nothing:
// Normalize handles ordering.
func (t *Tree) relink() {
	idx := t.Index()
	for i := range t.Nodes {
		n := &t.Nodes[i]
		if n.LinkTo == "" {
			continue
		}
		tg, ok := idx[n.LinkTo]
		if !ok || tg.Kind != n.Kind || tg.LinkTo != "" {
			n.LinkTo = ""
		}
	}
}

func (t *Tree) dirs() []string {
	out := []string{""}
	for _, n := range t.Nodes {
		if n.Kind == KDir {
			out = append(out, n.Path)
		}
	}
	return out
}

// GenEdit applies one drawn edit to a clone of the tree and returns it.
func GenEdit(t *rapid.T, in *Tree, label string, names []string) (*Tree, string) {
	tr := in.Clone()
	if names == nil {
		names = SmallPool
	}
	pick := func(l string, pred func(n *Node) bool) *Node {
		var cand []int
		for i := range tr.Nodes {
			if pred == nil || pred(&tr.Nodes[i]) {
				cand = append(cand, i)
			}
		}
		if len(cand) == 0 {
			return nil
		}
		return &tr.Nodes[cand[rapid.IntRange(0, len(cand)-1).Draw(t, label+l)]]
	}
	isFile := func(n *Node) bool { return n.Kind == KFile && n.LinkTo == "" }
	desc := ""
	op := rapid.IntRange(0, 17).Draw(t, label+".op")
	switch op {
	case 0: // rewrite same size
		if n := pick(".n", isFile); n != nil {
			n.Seed += 7919
			n.Mtime += 1_000_000_007
			desc = "rewrite-same-size " + n.Path
		}
	case 1: // rewrite other size
		if n := pick(".n", isFile); n != nil {
			n.Seed += 104729
			n.Size = rapid.SampledFrom([]int{0, 1, 18, 999, 32768, 32769, 70001}).Draw(t, label+".size")
			n.Mtime += 2_000_000_011
			desc = "rewrite-other-size " + n.Path
		}
	case 2: // touch
		if n := pick(".n", func(n *Node) bool { return n.LinkTo == "" }); n != nil {
			n.Mtime += rapid.SampledFrom([]int64{1, 1000, 1_000_000_000, -1_000_000_000}).Draw(t, label+".dt")
			if n.Mtime < 0 {
				n.Mtime = 1
			}
			desc = "touch " + n.Path
		}
	case 3: // chmod
		if n := pick(".n", func(n *Node) bool { return n.Kind != KSymlink && n.LinkTo == "" }); n != nil {
			old := n.Perm
			n.Perm = genPerm(t, label+".perm", n.Kind == KDir)
			if n.Perm == old {
				n.Perm ^= 0o010
			}
			desc = "chmod " + n.Path
		}
	case 4: // chown
		if n := pick(".n", func(n *Node) bool { return n.LinkTo == "" }); n != nil {
			if rapid.Bool().Draw(t, label+".which") {
				n.Uid += 1
			} else {
				n.Gid += 3
			}
			desc = "chown " + n.Path
		}
	case 5: // delete (subtree)
		if n := pick(".n", nil); n != nil {
			p := n.Path
			tr.removeSubtree(p)
			tr.relink()
			desc = "delete " + p
		}
	case 6, 7: // add
		ds := tr.dirs()
		par := ds[rapid.IntRange(0, len(ds)-1).Draw(t, label+".par")]
		name := rapid.SampledFrom(names).Draw(t, label+".name")
		p := name
		if par != "" {
			p = par + "/" + name
		}
		if _, exists := tr.Index()[p]; !exists {
			nd := Node{Path: p, Perm: 0o644, Mtime: genMtime(t, label+".mt")}
			switch rapid.IntRange(0, 5).Draw(t, label+".kind") {
			case 0, 1, 2:
				nd.Kind, nd.Seed, nd.Size = KFile, uint32(rapid.IntRange(1, 1<<20).Draw(t, label+".seed")), rapid.SampledFrom(sizePoolBig).Draw(t, label+".size")
			case 3:
				nd.Kind, nd.Perm = KDir, 0o755
			case 4:
				nd.Kind, nd.Target = KSymlink, rapid.SampledFrom([]string{"a", "../b", "/abs", "dangling"}).Draw(t, label+".tg")
			case 5:
				nd.Kind = KFifo
			}
			tr.Nodes = append(tr.Nodes, nd)
			desc = "add " + p
		}
	case 8: // rename (move subtree)
		if n := pick(".n", nil); n != nil {
			old := n.Path
			ds := tr.dirs()
			par := ds[rapid.IntRange(0, len(ds)-1).Draw(t, label+".par")]
			name := rapid.SampledFrom(names).Draw(t, label+".name")
			np := name
			if par != "" {
				np = par + "/" + name
			}
			if par == old || strings.HasPrefix(par+"/", old+"/") {
				break
			}
			if _, exists := tr.Index()[np]; exists {
				break
			}
			for i := range tr.Nodes {
				m := &tr.Nodes[i]
				if m.Path == old {
					m.Path = np
				} else if strings.HasPrefix(m.Path, old+"/") {
					m.Path = np + m.Path[len(old):]
				}
				if m.LinkTo == old {
					m.LinkTo = np
				} else if strings.HasPrefix(m.LinkTo, old+"/") {
					m.LinkTo = np + m.LinkTo[len(old):]
				}
			}
			desc = "rename " + old + " -> " + np
		}
	case 9, 10: // type swap at the same path
		if n := pick(".n", nil); n != nil {
			p := n.Path
			oldKind := n.Kind
			newKind := rapid.SampledFrom([]Kind{KFile, KDir, KSymlink, KFifo}).Draw(t, label+".to")
			if newKind == oldKind {
				break
			}
			nd := Node{Path: p, Kind: newKind, Perm: 0o644, Uid: n.Uid, Gid: n.Gid, Mtime: n.Mtime}
			switch newKind {
			case KFile:
				nd.Seed, nd.Size = 4242, rapid.SampledFrom([]int{0, 5, 40000}).Draw(t, label+".size")
			case KDir:
				nd.Perm = 0o755
			case KSymlink:
				nd.Target = "a"
			}
			tr.removeSubtree(p)
			tr.Nodes = append(tr.Nodes, nd)
			if newKind == KDir && rapid.Bool().Draw(t, label+".child") {
				tr.Nodes = append(tr.Nodes, Node{Path: p + "/" + rapid.SampledFrom(names).Draw(t, label+".cn"), Kind: KFile, Perm: 0o600, Seed: 99, Size: 3, Mtime: 77})
			}
			tr.relink()
			desc = "swap " + p + " " + oldKind.String() + "->" + newKind.String()
		}
	case 11: // make a file a hard link of another
		a := pick(".a", isFile)
		b := pick(".b", func(n *Node) bool { return n.Kind == KFile })
		if a != nil && b != nil && a.Path != b.Path {
			// b becomes a member of a's group (Normalize orients the link)
			first, second := a, b
			if CmpComponents(a.Path, b.Path) > 0 {
				first, second = b, a
			}
			if first.LinkTo == "" {
				// detach anything that linked to `second`
				for i := range tr.Nodes {
					if tr.Nodes[i].LinkTo == second.Path {
						tr.Nodes[i].LinkTo = first.Path
					}
				}
				second.LinkTo = first.Path
				desc = "link " + second.Path + " => " + first.Path
			}
		}
	case 12: // unlink a member (becomes an independent file with same bytes)
		if n := pick(".n", func(n *Node) bool { return n.LinkTo != "" }); n != nil {
			n.LinkTo = ""
			desc = "unlink-member " + n.Path
		}
	case 13: // delete or replace the first member of a group
		if n := pick(".n", func(n *Node) bool { return n.LinkTo != "" }); n != nil {
			first := n.LinkTo
			var members []*Node
			for i := range tr.Nodes {
				if tr.Nodes[i].LinkTo == first {
					members = append(members, &tr.Nodes[i])
				}
			}
			// the remaining members stay linked among themselves, with the old bytes
			members[0].LinkTo = ""
			for _, m := range members[1:] {
				m.LinkTo = members[0].Path
			}
			if rapid.Bool().Draw(t, label+".del") {
				desc = "delete-first-member " + first
				tr.removeSubtree(first)
			} else {
				f := tr.Index()[first]
				f.Seed += 31337
				f.Mtime += 5
				desc = "replace-first-member " + first
			}
		}
	case 14: // device renumber
		if n := pick(".n", func(n *Node) bool { return (n.Kind == KChar || n.Kind == KBlock) && n.LinkTo == "" }); n != nil {
			if rapid.Bool().Draw(t, label+".maj") {
				n.Major = (n.Major + 1) % 4096
			} else {
				n.Minor = (n.Minor + 1) % (1 << 20)
			}
			desc = "renumber " + n.Path
		}
	case 15: // identity-preserving: rewrite same size and restore mtime
		if n := pick(".n", func(n *Node) bool { return isFile(n) && n.Size > 0 }); n != nil {
			n.Seed += 15485863
			desc = "rewrite-keep-identity " + n.Path
		}
	case 16, 17: // extended attributes only (identity untouched): set, change or drop one
		pred := func(n *Node) bool { return (n.Kind == KFile && n.LinkTo == "") || n.Kind == KDir }
		if op == 17 {
			// ... on the first name of a link group, and another name of the group goes away
			pred = func(n *Node) bool {
				if n.Kind != KFile || n.LinkTo != "" {
					return false
				}
				for i := range tr.Nodes {
					if tr.Nodes[i].LinkTo == n.Path {
						return true
					}
				}
				return false
			}
		}
		if n := pick(".n", pred); n != nil {
			x := map[string][]byte{}
			for k, v := range n.Xattrs {
				x[k] = v
			}
			// (security.* values have a format of their own: left alone)
			free := func(key string) bool { return strings.HasPrefix(key, "user.") || strings.HasPrefix(key, "trusted.") }
			nfree := 0
			for key := range x {
				if free(key) {
					nfree++
				}
			}
			switch k := rapid.IntRange(0, 2).Draw(t, label+".xop"); {
			case k == 0 && nfree > 0:
				for key := range x {
					if free(key) {
						delete(x, key)
					}
				}
			case k == 1 && nfree > 0:
				for key := range x {
					if free(key) {
						if v := append([]byte{}, x[key]...); len(v) > 1000 {
							v[0] ^= 1 // (values may be as long as the kernel allows)
							x[key] = v
						} else {
							x[key] = append(v, '+')
						}
					}
				}
			default:
				x["user.e"] = []byte("edit")
			}
			if len(x) == 0 {
				x = nil
			}
			n.Xattrs = x
			desc = "xattr-only " + n.Path
			if op == 17 {
				first := n.Path
				for i := range tr.Nodes {
					if tr.Nodes[i].LinkTo == first {
						gone := tr.Nodes[i].Path
						tr.removeSubtree(gone)
						desc += " and delete-member " + gone
						break
					}
				}
			}
		}
	}
	tr.Normalize()
	if desc == "" {
		desc = "noop"
	}
	return tr, desc
}

// Overlay computes the merge-mode result: src laid over dst. A src entry
// replaces the dst entry at its path; when exactly one of them is a directory
// the old subtree (or the old non-directory) goes away. Returns the overlaid
// tree and the set of dst paths that survive untouched.
func Overlay(dst, src *Tree) (*Tree, map[string]bool) {
	out := &Tree{}
	sidx := src.Index()
	survive := map[string]bool{}
	for _, d := range dst.Nodes {
		// removed if some ancestor-or-self path is a src entry of a different dir-ness, or self is in src
		gone := false
		if _, ok := sidx[d.Path]; ok {
			gone = true
		}
		for a := path.Dir(d.Path); a != "." && !gone; a = path.Dir(a) {
			if s, ok := sidx[a]; ok && s.Kind != KDir {
				gone = true // a dst directory replaced by a src non-directory
			}
		}
		if !gone {
			survive[d.Path] = true
			out.Nodes = append(out.Nodes, d)
		}
	}
	out.Nodes = append(out.Nodes, src.Clone().Nodes...)
	out.Sort()
	return out, survive
}

// AlignIdentical enforces the implicit precondition of identity-based
// differencing: a destination file whose identity (mode, owner, size, mtime)
// equals the source file's at the same path has the same bytes. filterUid/Gid
// (when ok) are the owner the receiver's filter rewrites source stats to.
func AlignIdentical(src, dst *Tree, rewriteOwner bool, uid, gid uint32) int {
	if !rewriteOwner {
		return AlignIdenticalBy(src, dst, nil)
	}
	return AlignIdenticalBy(src, dst, func(uint32, uint32) (uint32, uint32) { return uid, gid })
}

// AlignIdenticalBy is AlignIdentical for a receiver that rewrites owners with
// `owner` (nil: not at all) before comparing.
func AlignIdenticalBy(src, dst *Tree, owner func(uid, gid uint32) (uint32, uint32)) int {
	if dst == nil {
		return 0
	}
	sidx := src.Index()
	n := 0
	for i := range dst.Nodes {
		d := &dst.Nodes[i]
		if d.Kind != KFile || d.LinkTo != "" {
			continue
		}
		s, ok := sidx[d.Path]
		if !ok || s.Kind != KFile || s.LinkTo != "" {
			continue
		}
		su, sg := s.Uid, s.Gid
		if owner != nil {
			su, sg = owner(su, sg)
		}
		if s.Perm == d.Perm && su == d.Uid && sg == d.Gid && s.Size == d.Size && s.Mtime == d.Mtime && s.Seed != d.Seed {
			d.Seed = s.Seed
			n++
		}
	}
	if n > 0 {
		dst.Normalize()
	}
	return n
}
