package harness

import (
	"strings"

	"pgregory.net/rapid"
)

// GenPatterns draws a pattern list from a grammar over the tree's own names
// and near misses: literal paths and prefixes, '*', '?', '**', classes,
// stacked trailing globs, negations, duplicates and unclean spellings.
func GenPatterns(t *rapid.T, tr *Tree, label string, maxN int) []string {
	if rapid.IntRange(0, 4).Draw(t, label+".structured") == 0 {
		if out := genBaseWithExceptions(t, tr, label); out != nil {
			return out
		}
	}
	n := rapid.IntRange(0, maxN).Draw(t, label+".n")
	var out []string
	for i := 0; i < n; i++ {
		li := label + "." + itoa(i)
		if len(out) > 0 && rapid.IntRange(0, 11).Draw(t, li+".dup") == 0 {
			out = append(out, out[rapid.IntRange(0, len(out)-1).Draw(t, li+".dupi")])
			continue
		}
		p := genPattern(t, tr, li)
		if i == 0 && strings.HasPrefix(p, "!") && rapid.IntRange(0, 3).Draw(t, li+".keepneg") != 0 {
			p = p[1:] // a list that starts with a negation selects nothing: keep it rare
		}
		out = append(out, p)
	}
	return out
}

func genPattern(t *rapid.T, tr *Tree, li string) string {
	var comps []string
	if len(tr.Nodes) > 0 && rapid.IntRange(0, 5).Draw(t, li+".fromtree") != 0 {
		p := tr.Nodes[rapid.IntRange(0, len(tr.Nodes)-1).Draw(t, li+".node")].Path
		comps = strings.Split(p, "/")
		if len(comps) > 1 && rapid.Bool().Draw(t, li+".trunc") {
			comps = comps[:rapid.IntRange(1, len(comps)).Draw(t, li+".k")]
		}
	} else {
		k := rapid.IntRange(1, 3).Draw(t, li+".depth")
		for j := 0; j < k; j++ {
			comps = append(comps, rapid.SampledFrom(SmallPool).Draw(t, li+".nm"+itoa(j)))
		}
	}
	for j := range comps {
		c := comps[j]
		switch rapid.IntRange(0, 11).Draw(t, li+".tr"+itoa(j)) {
		case 0:
			comps[j] = "*"
		case 1:
			comps[j] = "**"
		case 2:
			if len(c) > 0 {
				comps[j] = "?" + c[1:]
			}
		case 3:
			if len(c) > 0 {
				comps[j] = c[:1] + "*"
			}
		case 4:
			if len(c) > 0 && c[0] >= 'a' && c[0] <= 'z' {
				comps[j] = "[a-c]" + c[1:]
			}
		case 5:
			if len(c) > 0 {
				comps[j] = "[^a]" + c[1:]
			}
		case 6:
			comps[j] = "*" + c
		}
	}
	p := strings.Join(comps, "/")
	p += rapid.SampledFrom([]string{"", "", "", "", "/*", "/**", "/*/**", "/*/*", "/**/*", "/", "/**/**", "/*/**/*"}).Draw(t, li+".suf")
	switch rapid.IntRange(0, 11).Draw(t, li+".pre") {
	case 0, 1, 2:
		p = "!" + p
	case 3:
		p = "./" + p
	case 4:
		p = "**/" + p
	case 5:
		p = strings.Replace(p, "/", "//", 1)
	}
	return p
}

// HasNegation reports whether a list contains a '!' pattern.
func HasNegation(ps []string) bool {
	for _, p := range ps {
		if strings.HasPrefix(strings.TrimSpace(p), "!") {
			return true
		}
	}
	return false
}

// genBaseWithExceptions builds the shape real users write: a pattern for a
// directory followed by 1-3 '!' exceptions for entries below it - literal
// ones and ones with a wildcard in a middle or the last component, in a drawn
// order - and optionally one more positive pattern for the directory after
// them. Returns nil if the tree has no directory with a descendant.
func genBaseWithExceptions(t *rapid.T, tr *Tree, label string) []string {
	var dirs []string
	below := map[string][]string{}
	for _, n := range tr.Nodes {
		for d := n.Path; ; {
			i := strings.LastIndex(d, "/")
			if i < 0 {
				break
			}
			d = d[:i]
			if len(below[d]) == 0 {
				dirs = append(dirs, d)
			}
			below[d] = append(below[d], n.Path)
		}
	}
	if len(dirs) == 0 {
		return nil
	}
	d := dirs[rapid.IntRange(0, len(dirs)-1).Draw(t, label+".s.dir")]
	base := d
	dc := strings.Split(d, "/")
	switch rapid.IntRange(0, 5).Draw(t, label+".s.baseform") {
	case 0:
		dc[len(dc)-1] = "*"
		base = strings.Join(dc, "/")
	case 1:
		last := dc[len(dc)-1]
		if len(last) > 0 {
			dc[len(dc)-1] = last[:1] + "*"
			base = strings.Join(dc, "/")
		}
	case 2:
		base = d + "/**"
	}
	out := []string{base}
	k := rapid.IntRange(1, 3).Draw(t, label+".s.nexc")
	for i := 0; i < k; i++ {
		li := label + ".s.e" + itoa(i)
		x := below[d][rapid.IntRange(0, len(below[d])-1).Draw(t, li+".x")]
		xc := strings.Split(x, "/")
		nd := len(strings.Split(d, "/"))
		switch rapid.IntRange(0, 5).Draw(t, li+".form") {
		case 0, 1: // literal
		case 2: // wildcard in a middle component below the directory (or the last one)
			j := nd
			if len(xc)-1 > nd {
				j = rapid.IntRange(nd, len(xc)-2).Draw(t, li+".mid")
			}
			xc[j] = "*"
		case 3: // any depth
			xc = append(append([]string{}, xc[:nd]...), "**", xc[len(xc)-1])
		case 4: // wildcard in the last component
			last := xc[len(xc)-1]
			if len(last) > 0 {
				xc[len(xc)-1] = last[:1] + "*"
			}
		case 5: // a prefix of the path
			if len(xc)-1 > nd {
				xc = xc[:rapid.IntRange(nd+1, len(xc)).Draw(t, li+".cut")]
			}
		}
		out = append(out, "!"+strings.Join(xc, "/"))
	}
	if rapid.IntRange(0, 2).Draw(t, label+".s.tail") == 0 {
		first := strings.Split(d, "/")[0]
		tail := rapid.SampledFrom([]string{first[:1] + "*", "*", d, "**/" + dc[len(dc)-1]}).Draw(t, label+".s.tailp")
		out = append(out, tail)
	}
	if rapid.IntRange(0, 3).Draw(t, label+".s.lead") == 0 {
		out = append([]string{rapid.SampledFrom([]string{"*", "**", "*/*"}).Draw(t, label+".s.leadp")}, out...)
	}
	return out
}
