package harness

import (
	"strings"

	"pgregory.net/rapid"
)

// GenPatterns draws a pattern list from a grammar over the tree's own names
// and near misses: literal paths and prefixes, '*', '?', '**', classes,
// stacked trailing globs, negations, duplicates and unclean spellings.
func GenPatterns(t *rapid.T, tr *Tree, label string, maxN int) []string {
	n := rapid.IntRange(0, maxN).Draw(t, label+".n")
	var out []string
	for i := 0; i < n; i++ {
		li := label + "." + itoa(i)
		if len(out) > 0 && rapid.IntRange(0, 11).Draw(t, li+".dup") == 0 {
			out = append(out, out[rapid.IntRange(0, len(out)-1).Draw(t, li+".dupi")])
			continue
		}
		p := genPattern(t, tr, li)
		if i == 0 && strings.HasPrefix(p, "!") && rapid.IntRange(0, 3).Draw(t, li+".keepneg") != 0 {
			p = p[1:] // a list that starts with a negation selects nothing: keep it rare
		}
		out = append(out, p)
	}
	return out
}

func genPattern(t *rapid.T, tr *Tree, li string) string {
	var comps []string
	if len(tr.Nodes) > 0 && rapid.IntRange(0, 5).Draw(t, li+".fromtree") != 0 {
		p := tr.Nodes[rapid.IntRange(0, len(tr.Nodes)-1).Draw(t, li+".node")].Path
		comps = strings.Split(p, "/")
		if len(comps) > 1 && rapid.Bool().Draw(t, li+".trunc") {
			comps = comps[:rapid.IntRange(1, len(comps)).Draw(t, li+".k")]
		}
	} else {
		k := rapid.IntRange(1, 3).Draw(t, li+".depth")
		for j := 0; j < k; j++ {
			comps = append(comps, rapid.SampledFrom(SmallPool).Draw(t, li+".nm"+itoa(j)))
		}
	}
	for j := range comps {
		c := comps[j]
		switch rapid.IntRange(0, 11).Draw(t, li+".tr"+itoa(j)) {
		case 0:
			comps[j] = "*"
		case 1:
			comps[j] = "**"
		case 2:
			if len(c) > 0 {
				comps[j] = "?" + c[1:]
			}
		case 3:
			if len(c) > 0 {
				comps[j] = c[:1] + "*"
			}
		case 4:
			if len(c) > 0 && c[0] >= 'a' && c[0] <= 'z' {
				comps[j] = "[a-c]" + c[1:]
			}
		case 5:
			if len(c) > 0 {
				comps[j] = "[^a]" + c[1:]
			}
		case 6:
			comps[j] = "*" + c
		}
	}
	p := strings.Join(comps, "/")
	p += rapid.SampledFrom([]string{"", "", "", "", "/*", "/**", "/*/**", "/*/*", "/**/*", "/", "/**/**", "/*/**/*"}).Draw(t, li+".suf")
	switch rapid.IntRange(0, 11).Draw(t, li+".pre") {
	case 0, 1, 2:
		p = "!" + p
	case 3:
		p = "./" + p
	case 4:
		p = "**/" + p
	case 5:
		p = strings.Replace(p, "/", "//", 1)
	}
	return p
}

// HasNegation reports whether a list contains a '!' pattern.
func HasNegation(ps []string) bool {
	for _, p := range ps {
		if strings.HasPrefix(strings.TrimSpace(p), "!") {
			return true
		}
	}
	return false
}
