package probe

import (
	"context"
	"fmt"
	"os"
	"path/filepath"
	"syscall"
	"testing"
	"time"

	fscopy "github.com/tonistiigi/fsutil/copy"
	"github.com/tonistiigi/fsutil"
	"golang.org/x/sys/unix"
)

func lst(root string) []string {
	var out []string
	filepath.Walk(root, func(p string, fi os.FileInfo, err error) error {
		if err != nil {
			return nil
		}
		r, _ := filepath.Rel(root, p)
		st := fi.Sys().(*syscall.Stat_t)
		s := fmt.Sprintf("%-12s %v uid=%d gid=%d mt=%d.%09d ino=%d nl=%d", r, fi.Mode(), st.Uid, st.Gid, st.Mtim.Sec, st.Mtim.Nsec, st.Ino, st.Nlink)
		out = append(out, s)
		return nil
	})
	return out
}

func setmt(p string, ns int64) {
	ts := []unix.Timespec{unix.NsecToTimespec(ns), unix.NsecToTimespec(ns)}
	unix.UtimesNanoAt(unix.AT_FDCWD, p, ts, unix.AT_SYMLINK_NOFOLLOW)
}

func TestS1Copy(t *testing.T) {
	src := t.TempDir()
	dst := t.TempDir()
	os.MkdirAll(filepath.Join(src, "d/e"), 0750)
	os.WriteFile(filepath.Join(src, "d/e/f"), []byte("F"), 0644)
	os.Link(filepath.Join(src, "d/e/f"), filepath.Join(src, "d/g"))
	os.Symlink("/nonexistent", filepath.Join(src, "d/l"))
	os.Chown(filepath.Join(src, "d/e/f"), 1234, 5678)
	os.Chmod(filepath.Join(src, "d/e/f"), 0755|os.ModeSetuid)
	os.Lchown(filepath.Join(src, "d/l"), 11, 12)
	syscall.Mkfifo(filepath.Join(src, "d/p"), 0600)
	for i, p := range []string{"d/e/f", "d/l", "d/p", "d/e", "d"} {
		setmt(filepath.Join(src, p), int64(1000000000*(100+i))+123456789)
	}
	for _, l := range lst(src) {
		t.Log("SRC ", l)
	}
	var notes []string
	tm := time.Unix(5000, 77)
	_ = tm
	err := fscopy.Copy(context.Background(), src, "d", dst, "x/y/z", fscopy.WithChangeNotifier(func(k fsutil.ChangeKind, p string, fi os.FileInfo, err error) error {
		notes = append(notes, p)
		return nil
	}))
	t.Log("err", err, "notes", notes)
	for _, l := range lst(dst) {
		t.Log("DST ", l)
	}
	// with include pattern
	dst2 := t.TempDir()
	err = fscopy.Copy(context.Background(), src, "d", dst2, "/", fscopy.WithIncludePattern("e/f"), func(ci *fscopy.CopyInfo) { ci.CopyDirContents = true })
	t.Log("err", err)
	for _, l := range lst(dst2) {
		t.Log("DST2", l)
	}
	// chown + utime + mode, nested dst
	dst3 := t.TempDir()
	m := 0o4711
	err = fscopy.Copy(context.Background(), src, "d", dst3, "p/q", fscopy.WithChown(42, 43), func(ci *fscopy.CopyInfo) { ci.Utime = &tm; ci.Mode = &m })
	t.Log("err", err)
	for _, l := range lst(dst3) {
		t.Log("DST3", l)
	}
}
