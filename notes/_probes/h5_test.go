package probe

import (
	"archive/tar"
	"bytes"
	"context"
	"io"
	"os"
	"os/exec"
	"path/filepath"
	"strings"
	"syscall"
	"testing"

	"github.com/tonistiigi/fsutil"
	"golang.org/x/sys/unix"
)

func TestT1Tar(t *testing.T) {
	src := t.TempDir()
	os.MkdirAll(filepath.Join(src, "d/e"), 0750)
	os.WriteFile(filepath.Join(src, "d/e/f"), bytes.Repeat([]byte("F"), 40000), 0644)
	os.WriteFile(filepath.Join(src, "d/empty"), nil, 0600)
	os.Link(filepath.Join(src, "d/e/f"), filepath.Join(src, "d/g"))
	os.Symlink("/nonexistent", filepath.Join(src, "d/l"))
	syscall.Mkfifo(filepath.Join(src, "d/p"), 0600)
	unix.Mknod(filepath.Join(src, "d/c"), unix.S_IFCHR|0600, int(unix.Mkdev(5, 300)))
	long := strings.Repeat("n", 120)
	os.WriteFile(filepath.Join(src, long), []byte("L"), 0644)
	os.WriteFile(filepath.Join(src, "é"), []byte("L"), 0644)
	unix.Setxattr(filepath.Join(src, "é"), "user.k", []byte("v\x00w"), 0)
	unix.Setxattr(filepath.Join(src, "d"), "user.dk", []byte("dv"), 0)
	setmt(filepath.Join(src, "é"), 1500000000_700000000)
	os.Chmod(filepath.Join(src, "é"), 0755|os.ModeSetuid|os.ModeSticky)
	f, _ := fsutil.NewFS(src)
	var buf bytes.Buffer
	err := fsutil.WriteTar(context.Background(), f, &buf)
	t.Log("err", err, "len", buf.Len())
	os.WriteFile("/tmp/probe1/out.tar", buf.Bytes(), 0644)
	tr := tar.NewReader(bytes.NewReader(buf.Bytes()))
	for {
		h, err := tr.Next()
		if err != nil {
			t.Log("end", err)
			break
		}
		n, _ := io.Copy(io.Discard, tr)
		nm := h.Name
		if len(nm) > 20 {
			nm = nm[:20] + "…"
		}
		t.Logf("%c %-22s mode=%o size=%d read=%d link=%q dev=%d,%d uid=%d mt=%v fmt=%v pax=%v", h.Typeflag, nm, h.Mode, h.Size, n, h.Linkname, h.Devmajor, h.Devminor, h.Uid, h.ModTime.UnixNano(), h.Format, h.PAXRecords)
	}
	out, err := exec.Command("tar", "-tvf", "/tmp/probe1/out.tar").CombinedOutput()
	t.Logf("gnu tar: %v\n%s", err, out)
}
