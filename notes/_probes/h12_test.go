package probe

import (
	"context"
	"fmt"
	"os"
	"path/filepath"
	"strings"
	"testing"

	fscopy "github.com/tonistiigi/fsutil/copy"
)

func mk(root, p, kind string) {
	full := filepath.Join(root, p)
	switch kind {
	case "file":
		os.WriteFile(full, []byte("F:"+root[len(root)-3:]), 0644)
	case "dir":
		os.MkdirAll(full, 0755)
		os.WriteFile(filepath.Join(full, "inner"), []byte("I:"+root[len(root)-3:]), 0644)
	case "l2dir":
		os.MkdirAll(filepath.Join(root, "tdir"), 0755)
		os.Symlink("tdir", full)
	case "l2file":
		os.WriteFile(filepath.Join(root, "tfile"), []byte("T"), 0644)
		os.Symlink("tfile", full)
	}
}

func brief(root string) string {
	var out []string
	filepath.Walk(root, func(p string, fi os.FileInfo, err error) error {
		r, _ := filepath.Rel(root, p)
		if r == "." {
			return nil
		}
		k := "f"
		if fi.IsDir() {
			k = "d"
		} else if fi.Mode()&os.ModeSymlink != 0 {
			k = "l"
		}
		s := r + ":" + k
		if k == "f" {
			dt, _ := os.ReadFile(p)
			s += "=" + string(dt[:1])
			if strings.Contains(string(dt), "src") {
				s += "s"
			} else {
				s += "o"
			}
		}
		out = append(out, s)
		return nil
	})
	return strings.Join(out, " ")
}

func TestY1Overlay(t *testing.T) {
	for _, sk := range []string{"file", "dir", "l2file"} {
		for _, dk := range []string{"none", "file", "dir", "l2dir", "l2file"} {
			for _, dc := range []bool{false, true} {
				for _, ar := range []bool{false, true} {
					for _, dstarg := range []string{"x", "x/"} {
						base, _ := os.MkdirTemp("/dev/shm", "y1")
						src := filepath.Join(base, "src")
						dst := filepath.Join(base, "dst")
						os.MkdirAll(src, 0755)
						os.MkdirAll(dst, 0755)
						mk(src, "x", sk)
						if dk != "none" {
							mk(dst, "x", dk)
						}
						err := fscopy.Copy(context.Background(), src, "x", dst, dstarg, fscopy.WithCopyInfo(fscopy.CopyInfo{CopyDirContents: dc, AlwaysReplaceExistingDestPaths: ar}))
						e := "ok"
						if err != nil {
							e = "ERR(" + err.Error()[strings.LastIndex(err.Error(), ":")+1:] + ")"
							if len(e) > 40 {
								e = e[:40]
							}
						}
						fmt.Printf("src=%-6s dst=%-6s dc=%-5v ar=%-5v arg=%-3s => %-30s | %s\n", sk, dk, dc, ar, dstarg, e, brief(dst))
						os.RemoveAll(base)
					}
				}
			}
		}
	}
}
