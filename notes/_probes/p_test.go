package probe
import ("testing";"bytes";"context";"github.com/tonistiigi/fsutil/types";"github.com/tonistiigi/fsutil/util")
func TestP(t *testing.T){
 var b bytes.Buffer
 s:=util.NewProtoStream(context.Background(), &b, &b)
 err:=s.SendMsg(&types.Packet{Type: types.PACKET_REQ, ID: 3})
 t.Log(err, b.Len())
 var p types.Packet
 err=s.RecvMsg(&p)
 t.Log(err, p.Type, p.ID)
}
