package probe

import (
	"fmt"
	"os"
	"path/filepath"
	"sync"
	"testing"
	"time"

	"github.com/tonistiigi/fsutil"
	"pgregory.net/rapid"
)

func TestQ1NestedDelete(t *testing.T) {
	src := t.TempDir()
	dest := t.TempDir()
	for _, d := range []string{"a", "b", "c"} {
		os.MkdirAll(filepath.Join(dest, d), 0755)
		os.WriteFile(filepath.Join(dest, d, "x"), []byte("X"), 0644)
	}
	os.WriteFile(filepath.Join(dest, "zfile"), []byte("X"), 0644)
	f, _ := fsutil.NewFS(src)
	var notes []string
	var mu sync.Mutex
	e1, e2, _ := sync1(t, f, dest, fsutil.ReceiveOpt{ContentHasher: hasher, NotifyHashed: func(k fsutil.ChangeKind, p string, fi os.FileInfo, err error) error {
		mu.Lock(); notes = append(notes, fmt.Sprintf("%v %s", k, p)); mu.Unlock(); return nil
	}}, 5*time.Second)
	t.Logf("%v %v notes=%v", e1, e2, notes)
}

func TestQ2Rapid(t *testing.T) {
	rapid.Check(t, func(t *rapid.T) {
		a := rapid.StringMatching("[a-c/]{0,6}").Draw(t, "a")
		b := rapid.StringMatching("[a-c/]{0,6}").Draw(t, "b")
		if (fsutil.ComparePath(a, b) < 0) != (fsutil.ComparePath(b, a) > 0) {
			t.Fatalf("antisym %q %q", a, b)
		}
	})
}
