package probe

import (
	"testing"

	"github.com/tonistiigi/fsutil/types"
	"google.golang.org/protobuf/proto"
)

func TestR1Codec(t *testing.T) {
	for _, s := range []*types.Stat{
		{Path: "a\xffb", Mode: 0644},
		{Path: "ok", Size: -5, ModTime: -1, Devmajor: -7, Xattrs: map[string][]byte{"user.a": nil, "user.b": {}, "user.c": {0, 1}}},
		{Path: "ok", Xattrs: map[string][]byte{"k\xff": {1}}},
	} {
		vt, err := s.Marshal()
		t.Logf("vt marshal err=%v len=%d", err, len(vt))
		gp, err := proto.Marshal(s)
		t.Logf("generic marshal err=%v len=%d", err, len(gp))
		var s2 types.Stat
		err = proto.Unmarshal(vt, &s2)
		t.Logf("generic unmarshal of vt err=%v equal=%v", err, s.EqualVT(&s2))
		var s3 types.Stat
		err = s3.Unmarshal(vt)
		t.Logf("vt unmarshal of vt err=%v equal=%v %v", err, s.EqualVT(&s3), s3.Xattrs)
		if gp != nil {
			var s4 types.Stat
			err = s4.Unmarshal(gp)
			t.Logf("vt unmarshal of generic err=%v equal=%v protoEqual=%v", err, s.EqualVT(&s4), proto.Equal(s, &s4))
		}
	}
	p := &types.Packet{Type: types.PACKET_DATA, ID: 7, Data: []byte{}}
	dt, _ := p.Marshal()
	var p2 types.Packet
	p2.Unmarshal(dt)
	t.Logf("empty data: len=%d p2.Data nil=%v equal=%v", len(dt), p2.Data == nil, p.EqualVT(&p2))
}
