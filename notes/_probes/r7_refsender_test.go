package probe

import (
	"bytes"
	"context"
	"fmt"
	"io"
	"os"
	"path/filepath"
	"testing"
	"time"

	"github.com/tonistiigi/fsutil"
	"github.com/tonistiigi/fsutil/types"
	"pgregory.net/rapid"
)

// C07 dry run: reference sender vs real Receive
func TestR7Receiver(t *testing.T) {
	rapid.Check(t, func(t *rapid.T) {
		view := genView(t)
		for _, f := range view {
			f.st.Uid, f.st.Gid = 0, 0
			f.st.ModTime = 1500000000_123456789
		}
		dest, _ := os.MkdirTemp("/dev/shm", "r7")
		defer os.RemoveAll(dest)
		capn := rapid.SampledFrom([]int{0, 1, 8, 64}).Draw(t, "cap")
		chunk := rapid.SampledFrom([]int{1, 7, 4096, 32768, 32769, 1 << 20}).Draw(t, "chunk")
		if chunk == 1 {
			// keep 1-byte chunking affordable
			for i := range view {
				if len(view[i].data) > 2000 {
					view[i].data = view[i].data[:2000]
					view[i].st.Size = 2000
				}
			}
		}
		roundRobin := rapid.Bool().Draw(t, "rr")
		ctx, cancel := context.WithTimeout(context.Background(), 30*time.Second)
		defer cancel()
		toRecv := make(chan *types.Packet, capn)
		fromRecv := make(chan *types.Packet, capn)
		r := &conn{ctx: ctx, recv: toRecv, send: fromRecv, name: "R"}
		var recvErr error
		done := make(chan struct{})
		go func() {
			recvErr = fsutil.Receive(ctx, r, dest, fsutil.ReceiveOpt{})
			close(done)
		}()
		// reference sender
		type pending struct {
			id   uint32
			rest []byte
		}
		reqs := make(chan uint32, 1000)
		finSeen := make(chan struct{})
		var protoErr string
		reqSeen := map[uint32]int{}
		go func() {
			for {
				select {
				case <-ctx.Done():
					return
				case p := <-fromRecv:
					switch p.Type {
					case types.PACKET_REQ:
						reqSeen[p.ID]++
						reqs <- p.ID
					case types.PACKET_FIN:
						close(finSeen)
						return
					case types.PACKET_ERR:
						protoErr = "ERR " + string(p.Data)
						close(finSeen)
						return
					}
				}
			}
		}()
		send := func(p *types.Packet) {
			select {
			case toRecv <- p:
			case <-ctx.Done():
			}
		}
		var queue []*pending
		sentTerm := map[uint32]bool{}
		pump := func(max int) {
			for n := 0; n < max && len(queue) > 0; n++ {
				idx := 0
				if roundRobin {
					idx = n % len(queue)
				}
				q := queue[idx]
				if len(q.rest) == 0 {
					send(&types.Packet{Type: types.PACKET_DATA, ID: q.id})
					sentTerm[q.id] = true
					queue = append(queue[:idx], queue[idx+1:]...)
					continue
				}
				k := chunk
				if k > len(q.rest) {
					k = len(q.rest)
				}
				send(&types.Packet{Type: types.PACKET_DATA, ID: q.id, Data: q.rest[:k]})
				q.rest = q.rest[k:]
			}
		}
		drain := func() {
			for {
				select {
				case id := <-reqs:
					if int(id) >= len(view) || view[id].st.Mode&uint32(os.ModeType) != 0 {
						protoErr = fmt.Sprintf("bad req id %d", id)
						continue
					}
					queue = append(queue, &pending{id: id, rest: view[id].data})
				default:
					return
				}
			}
		}
		for _, f := range view {
			send(&types.Packet{Type: types.PACKET_STAT, Stat: f.st.Clone()})
			drain()
			pump(2) // race DATA with later STATs
		}
		send(&types.Packet{Type: types.PACKET_STAT})
		finished := false
		for !finished {
			drain()
			pump(8)
			select {
			case <-finSeen:
				finished = true
			case <-ctx.Done():
				t.Fatalf("timeout; queue=%d protoErr=%s", len(queue), protoErr)
			default:
				if len(queue) == 0 {
					select {
					case <-finSeen:
						finished = true
					case id := <-reqs:
						queue = append(queue, &pending{id: id, rest: view[id].data})
					case <-ctx.Done():
						t.Fatalf("timeout2")
					}
				}
			}
		}
		if protoErr != "" {
			<-done
			t.Fatalf("proto %s recvErr=%v", protoErr, recvErr)
		}
		if len(queue) != 0 {
			t.Fatalf("FIN before all data sent: %d left", len(queue))
		}
		// at FIN time all content must be on disk
		for id, f := range view {
			if f.st.Mode&uint32(os.ModeType) == 0 {
				if reqSeen[uint32(id)] != 1 {
					t.Fatalf("id %d requested %d times", id, reqSeen[uint32(id)])
				}
				dt, err := os.ReadFile(filepath.Join(dest, f.st.Path))
				if err != nil || !bytes.Equal(dt, f.data) {
					t.Fatalf("content at FIN time mismatch %s err=%v len=%d want=%d", f.st.Path, err, len(dt), len(f.data))
				}
			} else if reqSeen[uint32(id)] != 0 {
				t.Fatalf("requested non-file id %d", id)
			}
		}
		send(&types.Packet{Type: types.PACKET_FIN})
		close(toRecv)
		<-done
		if recvErr != nil && recvErr != io.EOF {
			t.Fatalf("recv err %v", recvErr)
		}
		if recvErr != nil {
			t.Fatalf("recv err %v", recvErr)
		}
	})
}
