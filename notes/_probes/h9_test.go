package probe

import (
	"context"
	"fmt"
	gofs "io/fs"
	"os"
	"path/filepath"
	"sort"
	"strings"
	"testing"

	"github.com/moby/patternmatcher"
	"github.com/tonistiigi/fsutil"
	"pgregory.net/rapid"
)

var names = []string{"a", "ab", "b", "c", "a-b", "x.txt"}

type ent struct {
	path string
	dir  bool
}

func genTree(t *rapid.T) []ent {
	var out []ent
	var rec func(prefix string, depth int)
	rec = func(prefix string, depth int) {
		n := rapid.IntRange(0, 4).Draw(t, "n")
		used := map[string]bool{}
		for i := 0; i < n; i++ {
			nm := rapid.SampledFrom(names).Draw(t, "nm")
			if used[nm] {
				continue
			}
			used[nm] = true
			p := filepath.Join(prefix, nm)
			isDir := depth < 3 && rapid.Bool().Draw(t, "dir")
			out = append(out, ent{p, isDir})
			if isDir {
				rec(p, depth+1)
			}
		}
	}
	rec("", 0)
	return out
}

func genPattern(t *rapid.T, paths []string) string {
	comps := []string{"a", "ab", "b", "c", "*", "a*", "?", "**", "[a-b]", "x.txt", "*.txt", "a-b"}
	var p string
	if len(paths) > 0 && rapid.IntRange(0, 2).Draw(t, "k") == 0 {
		p = rapid.SampledFrom(paths).Draw(t, "lit")
	} else {
		n := rapid.IntRange(1, 3).Draw(t, "nc")
		var cs []string
		for i := 0; i < n; i++ {
			cs = append(cs, rapid.SampledFrom(comps).Draw(t, "c"))
		}
		p = strings.Join(cs, "/")
		for strings.HasSuffix(p, "/*/**") {
			p = strings.TrimSuffix(p, "/**")
		}
	}
	if rapid.IntRange(0, 3).Draw(t, "neg") == 0 {
		p = "!" + p
	}
	return p
}

func naive(pats []string, paths []ent, include bool) (map[string]bool, error) {
	res := map[string]bool{}
	if len(pats) == 0 {
		for _, e := range paths {
			res[e.path] = include
		}
		return res, nil
	}
	for _, e := range paths {
		pm, err := patternmatcher.New(pats)
		if err != nil {
			return nil, err
		}
		m, err := pm.MatchesOrParentMatches(e.path)
		if err != nil {
			return nil, err
		}
		res[e.path] = m
	}
	return res, nil
}

func chain(pats []string, paths []ent, include bool) map[string]bool {
	res := map[string]bool{}
	if len(pats) == 0 {
		for _, e := range paths {
			res[e.path] = include
		}
		return res
	}
	for _, e := range paths {
		pm, _ := patternmatcher.New(pats)
		parts := strings.Split(e.path, "/")
		var info patternmatcher.MatchInfo
		var m bool
		for i := range parts {
			m, info, _ = pm.MatchesUsingParentResults(strings.Join(parts[:i+1], "/"), info)
		}
		res[e.path] = m
	}
	return res
}

func expected(inc, exc map[string]bool, paths []ent) []string {
	kept := map[string]bool{}
	for _, e := range paths {
		if inc[e.path] && !exc[e.path] {
			kept[e.path] = true
			for d := filepath.Dir(e.path); d != "."; d = filepath.Dir(d) {
				kept[d] = true
			}
		}
	}
	var out []string
	for k := range kept {
		out = append(out, k)
	}
	sort.Slice(out, func(i, j int) bool { return fsutil.ComparePath(out[i], out[j]) < 0 })
	return out
}

var stats = map[string]int{}

func TestX1Filter(t *testing.T) {
	rapid.Check(t, func(t *rapid.T) {
		tree := genTree(t)
		var paths []string
		for _, e := range tree {
			paths = append(paths, e.path)
		}
		ni := rapid.IntRange(0, 3).Draw(t, "ni")
		ne := rapid.IntRange(0, 3).Draw(t, "ne")
		var inc, exc []string
		for i := 0; i < ni; i++ {
			inc = append(inc, genPattern(t, paths))
		}
		for i := 0; i < ne; i++ {
			exc = append(exc, genPattern(t, paths))
		}
		root, _ := os.MkdirTemp("/dev/shm", "x1")
		defer os.RemoveAll(root)
		for _, e := range tree {
			if e.dir {
				os.MkdirAll(filepath.Join(root, e.path), 0755)
			} else {
				os.WriteFile(filepath.Join(root, e.path), []byte("x"), 0644)
			}
		}
		var got []string
		err := fsutil.WalkDir(context.Background(), root, &fsutil.FilterOpt{IncludePatterns: inc, ExcludePatterns: exc}, func(p string, d gofs.DirEntry, err error) error {
			if err != nil {
				return err
			}
			got = append(got, p)
			return nil
		})
		if err != nil {
			stats["walk-error"]++
			return
		}
		ni1, err1 := naive(inc, tree, true)
		ne1, err2 := naive(exc, tree, false)
		if err1 != nil || err2 != nil {
			stats["pattern-error"]++
			return
		}
		expN := expected(ni1, ne1, tree)
		expC := expected(chain(inc, tree, true), chain(exc, tree, false), tree)
		g := fmt.Sprint(got)
		switch {
		case g == fmt.Sprint(expN) && g == fmt.Sprint(expC):
			stats["agree-all"]++
		case g == fmt.Sprint(expC):
			stats["chain-only"]++
			if stats["chain-only"] <= 3 {
				t.Logf("CHAIN-ONLY inc=%q exc=%q tree=%v got=%v naive=%v", inc, exc, paths, got, expN)
			}
		case g == fmt.Sprint(expN):
			stats["naive-only"]++
			if stats["naive-only"] <= 3 {
				t.Logf("NAIVE-ONLY inc=%q exc=%q tree=%v got=%v chain=%v", inc, exc, paths, got, expC)
			}
		default:
			stats["neither"]++
			t.Fatalf("NEITHER inc=%q exc=%q tree=%v got=%v naive=%v chain=%v", inc, exc, paths, got, expN, expC)
		}
	})
	t.Log(stats)
}
