package probe

import (
	"fmt"
	"os"
	"path"
	"path/filepath"
	"sort"
	"strings"
	"testing"

	"github.com/tonistiigi/fsutil"
	"pgregory.net/rapid"
)

type node struct {
	kind   byte // d f l
	target string
}

var lnames = []string{"a", "b", "c", "d"}

func genLinkTree(t *rapid.T) map[string]node {
	m := map[string]node{}
	var rec func(prefix string, depth int)
	targets := []string{"a", "b", "c", "d", "../a", "../b", "/a", "/b", "a/b", "/a/b", "../../c", "b/c", ".", "..", "/", "../a/b"}
	rec = func(prefix string, depth int) {
		n := rapid.IntRange(0, 4).Draw(t, "n")
		for i := 0; i < n; i++ {
			nm := rapid.SampledFrom(lnames).Draw(t, "nm")
			p := path.Join(prefix, nm)
			if _, ok := m[p]; ok {
				continue
			}
			k := rapid.IntRange(0, 5).Draw(t, "k")
			switch {
			case k <= 1 && depth < 3:
				m[p] = node{kind: 'd'}
				rec(p, depth+1)
			case k <= 3:
				m[p] = node{kind: 'l', target: rapid.SampledFrom(targets).Draw(t, "tg")}
			default:
				m[p] = node{kind: 'f'}
			}
		}
	}
	rec("", 0)
	return m
}

// chroot-style resolve; returns traversed symlinks, final path (clean, "" = root), status
func resolve(m map[string]node, req string) (links []string, final string, status string) {
	comps := strings.Split(strings.Trim(path.Clean("/"+req), "/"), "/")
	if comps[0] == "" {
		comps = nil
	}
	cur := "" // root
	hops := 0
	for len(comps) > 0 {
		c := comps[0]
		comps = comps[1:]
		if c == "." || c == "" {
			continue
		}
		if c == ".." {
			cur = path.Dir(cur)
			if cur == "." || cur == "/" {
				cur = ""
			}
			continue
		}
		next := path.Join(cur, c)
		n, ok := m[next]
		if !ok {
			return links, path.Join(append([]string{next}, comps...)...), "missing"
		}
		switch n.kind {
		case 'l':
			hops++
			if hops > 40 {
				return links, "", "loop"
			}
			links = append(links, next)
			tc := strings.Split(n.target, "/")
			if strings.HasPrefix(n.target, "/") {
				cur = ""
			}
			comps = append(tc, comps...)
		case 'd':
			cur = next
		case 'f':
			if len(comps) > 0 {
				return links, path.Join(append([]string{next}, comps...)...), "notdir"
			}
			cur = next
		}
	}
	return links, cur, "ok"
}

func covered(out []string, p string) bool {
	if out == nil {
		return true
	}
	for _, e := range out {
		if e == p || strings.HasPrefix(p, e+"/") {
			return true
		}
	}
	return false
}

var stats3 = map[string]int{}

func TestX3Follow(t *testing.T) {
	rapid.Check(t, func(t *rapid.T) {
		m := genLinkTree(t)
		var all []string
		for p := range m {
			all = append(all, p)
		}
		sort.Strings(all)
		root, _ := os.MkdirTemp("/dev/shm", "x3")
		defer os.RemoveAll(root)
		for _, p := range all {
			n := m[p]
			switch n.kind {
			case 'd':
				os.MkdirAll(filepath.Join(root, p), 0755)
			case 'f':
				os.WriteFile(filepath.Join(root, p), []byte(p), 0644)
			case 'l':
				os.Symlink(n.target, filepath.Join(root, p))
			}
		}
		nr := rapid.IntRange(1, 3).Draw(t, "nr")
		var reqs []string
		for i := 0; i < nr; i++ {
			var r string
			if len(all) > 0 && rapid.Bool().Draw(t, "ex") {
				r = rapid.SampledFrom(all).Draw(t, "r")
				if rapid.Bool().Draw(t, "suffix") {
					r = r + "/" + rapid.SampledFrom(lnames).Draw(t, "sfx")
				}
			} else {
				n := rapid.IntRange(1, 3).Draw(t, "nc")
				var cs []string
				for j := 0; j < n; j++ {
					cs = append(cs, rapid.SampledFrom(lnames).Draw(t, "c"))
				}
				r = strings.Join(cs, "/")
			}
			reqs = append(reqs, r)
		}
		f, _ := fsutil.NewFS(root)
		out, err := fsutil.FollowLinks(f, reqs)
		if err != nil {
			t.Fatalf("err %v tree=%v reqs=%v", err, m, reqs)
		}
		if !sort.StringsAreSorted(out) {
			t.Fatalf("unsorted %v", out)
		}
		for i, a := range out {
			for j, b := range out {
				if i != j && (a == b || strings.HasPrefix(b, a+"/")) {
					t.Fatalf("nested %v", out)
				}
			}
		}
		for ri, r := range reqs {
			links, final, st := resolve(m, r)
			stats3["req-"+st]++
			seen := false
			for _, r2 := range reqs[:ri] {
				l2, _, _ := resolve(m, r2)
				for _, x := range l2 {
					for _, y := range links {
						if x == y {
							seen = true
						}
					}
				}
			}
			cnt := map[string]int{}
			for _, y := range links {
				cnt[y]++
				if cnt[y] > 1 {
					seen = true
				}
			}
			need := append([]string{}, links...)
			if st != "loop" {
				if final == "" {
					if out != nil {
						if seen {
							stats3["known-relink"]++
							return
						}
						t.Fatalf("root reached but out=%v tree=%v reqs=%v", out, m, reqs)
					}
					continue
				}
				need = append(need, final)
			}
			for _, p := range need {
				if !covered(out, p) {
					if seen {
						stats3["known-relink"]++
						return
					}
					t.Fatalf("UNCOVERED %q (st=%s links=%v final=%q) out=%v tree=%v reqs=%v", p, st, links, final, out, fmt.Sprint(m), reqs)
				}
			}
		}
		stats3["ok"]++
	})
	t.Log(stats3)
}
