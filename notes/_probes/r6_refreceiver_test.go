package probe

import (
	"bytes"
	"context"
	"fmt"
	"os"
	"sort"
	"sync"
	"testing"
	"time"

	"github.com/tonistiigi/fsutil"
	"github.com/tonistiigi/fsutil/types"
	"pgregory.net/rapid"
)

// ---------- C06 dry run: real Send vs reference receiver ----------

type mfile struct {
	st   *types.Stat
	data []byte
}

func genView(t *rapid.T) []mfile {
	n := rapid.IntRange(0, 40).Draw(t, "nfiles")
	if rapid.IntRange(0, 9).Draw(t, "big") == 0 {
		n = rapid.IntRange(140, 220).Draw(t, "nbig")
	}
	var out []mfile
	out = append(out, mfile{st: &types.Stat{Path: "d", Mode: uint32(os.ModeDir | 0755)}})
	for i := 0; i < n; i++ {
		p := fmt.Sprintf("d/f%04d", i)
		k := rapid.IntRange(0, 9).Draw(t, "k")
		switch {
		case k == 0:
			out = append(out, mfile{st: &types.Stat{Path: p, Mode: uint32(os.ModeSymlink | 0777), Linkname: "x"}})
		case k == 1:
			out = append(out, mfile{st: &types.Stat{Path: p, Mode: uint32(os.ModeNamedPipe | 0600)}})
		default:
			sz := rapid.SampledFrom([]int{0, 1, 100, 32768, 32769, 70000}).Draw(t, "sz")
			out = append(out, mfile{st: &types.Stat{Path: p, Mode: 0644, Size: int64(sz)}, data: content(i, sz)})
		}
	}
	return out
}

func TestR6Sender(t *testing.T) {
	rapid.Check(t, func(t *rapid.T) {
		view := genView(t)
		m := &memFS{data: map[string][]byte{}}
		for _, f := range view {
			m.stats = append(m.stats, f.st)
			if f.data != nil {
				m.data[f.st.Path] = f.data
			}
		}
		capn := rapid.SampledFrom([]int{0, 1, 8, 64}).Draw(t, "cap")
		eager := rapid.Bool().Draw(t, "eager")
		order := rapid.SampledFrom([]string{"asc", "desc"}).Draw(t, "order")
		skipEvery := rapid.IntRange(1, 4).Draw(t, "skip")
		ctx, cancel := context.WithTimeout(context.Background(), 20*time.Second)
		defer cancel()
		a := make(chan *types.Packet, capn)
		b := make(chan *types.Packet, capn)
		s := &conn{ctx: ctx, recv: a, send: b, name: "S"}
		var prog []int
		var lasts int
		var sendErr error
		done := make(chan struct{})
		go func() {
			sendErr = fsutil.Send(ctx, s, m, func(n int, last bool) {
				prog = append(prog, n)
				if last {
					lasts++
				}
			})
			close(done)
		}()
		// reference receiver: reader goroutine + requester
		var stats []*types.Stat
		got := map[uint32]*bytes.Buffer{}
		closed := map[uint32]int{}
		requested := map[uint32]bool{}
		var mu sync.Mutex
		reqCh := make(chan uint32, 1000)
		statsDone := make(chan struct{})
		finEcho := make(chan struct{})
		var protoErr string
		go func() { // writer of REQs
			for id := range reqCh {
				select {
				case a <- &types.Packet{Type: types.PACKET_REQ, ID: id}:
				case <-ctx.Done():
					return
				}
			}
		}()
		go func() {
			emptySeen := false
			for {
				select {
				case <-ctx.Done():
					return
				case p := <-b:
					switch p.Type {
					case types.PACKET_STAT:
						if p.Stat == nil {
							if emptySeen {
								protoErr = "two empty stats"
							}
							emptySeen = true
							close(statsDone)
							continue
						}
						if emptySeen {
							protoErr = "stat after end"
						}
						mu.Lock()
						id := uint32(len(stats))
						stats = append(stats, p.Stat)
						if eager && os.FileMode(p.Stat.Mode)&os.ModeType == 0 && int(id)%skipEvery == 0 {
							requested[id] = true
							got[id] = &bytes.Buffer{}
							mu.Unlock()
							reqCh <- id
						} else {
							mu.Unlock()
						}
					case types.PACKET_DATA:
						mu.Lock()
						if !requested[p.ID] {
							protoErr = fmt.Sprintf("data for unrequested %d", p.ID)
						}
						if closed[p.ID] > 0 {
							protoErr = fmt.Sprintf("data after close %d", p.ID)
						}
						if len(p.Data) == 0 {
							closed[p.ID]++
						} else {
							got[p.ID].Write(p.Data)
						}
						mu.Unlock()
					case types.PACKET_FIN:
						close(finEcho)
						return
					case types.PACKET_ERR:
						protoErr = "ERR " + string(p.Data)
						return
					}
				}
			}
		}()
		select {
		case <-statsDone:
		case <-ctx.Done():
			t.Fatalf("timeout waiting stats")
		}
		if !eager {
			mu.Lock()
			var ids []uint32
			for i, st := range stats {
				if os.FileMode(st.Mode)&os.ModeType == 0 && i%skipEvery == 0 {
					ids = append(ids, uint32(i))
				}
			}
			if order == "desc" {
				sort.Slice(ids, func(i, j int) bool { return ids[i] > ids[j] })
			}
			for _, id := range ids {
				requested[id] = true
				got[id] = &bytes.Buffer{}
			}
			mu.Unlock()
			for _, id := range ids {
				reqCh <- id
			}
		}
		// wait all closed
		deadline := time.After(15 * time.Second)
		for {
			mu.Lock()
			all := true
			for id := range requested {
				if closed[id] == 0 {
					all = false
				}
			}
			mu.Unlock()
			if all {
				break
			}
			select {
			case <-deadline:
				t.Fatalf("timeout waiting data; protoErr=%s", protoErr)
			case <-time.After(time.Millisecond):
			}
		}
		close(reqCh)
		a <- &types.Packet{Type: types.PACKET_FIN}
		select {
		case <-finEcho:
		case <-ctx.Done():
			t.Fatalf("no fin echo")
		}
		<-done
		if sendErr != nil {
			t.Fatalf("send err %v", sendErr)
		}
		if protoErr != "" {
			t.Fatalf("proto: %s", protoErr)
		}
		if len(stats) != len(view) {
			t.Fatalf("stat count %d vs %d", len(stats), len(view))
		}
		for i := range stats {
			if stats[i].Path != view[i].st.Path {
				t.Fatalf("stat order")
			}
		}
		for id := range requested {
			if !bytes.Equal(got[id].Bytes(), view[id].data) {
				t.Fatalf("content mismatch id %d", id)
			}
			if closed[id] != 1 {
				t.Fatalf("terminators %d for id %d", closed[id], id)
			}
		}
		if lasts != 1 || len(prog) == 0 {
			t.Fatalf("progress lasts=%d", lasts)
		}
		for i := 1; i < len(prog); i++ {
			if prog[i] < prog[i-1] {
				t.Fatalf("progress decreasing")
			}
		}
	})
}
