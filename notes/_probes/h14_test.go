package probe

import (
	"os"
	"path/filepath"
	"strings"
	"sync"
	"testing"
	"time"
	"fmt"

	"github.com/tonistiigi/fsutil"
	"pgregory.net/rapid"
)

func TestZ2Resync(t *testing.T) {
	rapid.Check(t, func(t *rapid.T) {
		srcT := genT(t, "s")
		base, _ := os.MkdirTemp("/dev/shm", "z2")
		defer os.RemoveAll(base)
		src := filepath.Join(base, "src")
		dst := filepath.Join(base, "dst")
		os.Mkdir(src, 0755)
		os.Mkdir(dst, 0755)
		if err := materialise(src, srcT); err != nil {
			t.Fatalf("mat src %v", err)
		}
		f, _ := fsutil.NewFS(src)
		e1, e2, _ := sync1(nil, f, dst, fsutil.ReceiveOpt{}, 20*time.Second)
		if e1 != nil || e2 != nil {
			t.Fatalf("sync err %v %v", e1, e2)
		}
		before := snapshot(dst)
		var notes []string
		var mu sync.Mutex
		e1, e2, log := sync1(nil, f, dst, fsutil.ReceiveOpt{ContentHasher: hasher, NotifyHashed: func(k fsutil.ChangeKind, p string, fi os.FileInfo, err error) error {
			mu.Lock(); notes = append(notes, fmt.Sprintf("%v %s", k, p)); mu.Unlock(); return nil
		}}, 20*time.Second)
		if e1 != nil || e2 != nil {
			t.Fatalf("resync err %v %v", e1, e2)
		}
		for _, l := range log {
			if strings.Contains(l, "PACKET_REQ") {
				t.Fatalf("REQ on unchanged resync: %v srcT=%+v", l, srcT)
			}
		}
		if len(notes) > 0 {
			t.Fatalf("notes on unchanged resync: %v srcT=%+v", notes, srcT)
		}
		after := snapshot(dst)
		for p, b := range before {
			if after[p] != b {
				t.Fatalf("changed %q %+v -> %+v", p, b, after[p])
			}
		}
	})
}
