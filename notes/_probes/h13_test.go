package probe

import (
	"crypto/sha256"
	"fmt"
	"os"
	"path/filepath"
	"sort"
	"strings"
	"syscall"
	"testing"
	"time"

	"github.com/tonistiigi/fsutil"
	"golang.org/x/sys/unix"
	"pgregory.net/rapid"
)

type tnode struct {
	Path   string
	Kind   string // d f l p c
	Mode   uint32 // 12 bits
	UID    int
	GID    int
	Mtime  int64
	Size   int
	Seed   int
	Target string
	LinkTo string
	Xattr  map[string]string
	Maj    uint32
	Min    uint32
}

var nm2 = []string{"a", "ab", "a-b", "a b", "a.b", "a0", "b", "é", "~", "!x", ".tmp.123456", "+"}
var sizes = []int{0, 1, 17, 32767, 32768, 32769, 65537}

func genT(t *rapid.T, label string) []tnode {
	var out []tnode
	var files []string
	var rec func(prefix string, depth int)
	rec = func(prefix string, depth int) {
		n := rapid.IntRange(0, 5).Draw(t, label+"n")
		used := map[string]bool{}
		for i := 0; i < n; i++ {
			nm := rapid.SampledFrom(nm2).Draw(t, label+"nm")
			if used[nm] {
				continue
			}
			used[nm] = true
			p := filepath.Join(prefix, nm)
			nd := tnode{Path: p, UID: rapid.SampledFrom([]int{0, 1000, 1234}).Draw(t, "uid"), GID: rapid.SampledFrom([]int{0, 1000, 5678}).Draw(t, "gid"),
				Mtime: int64(rapid.IntRange(1, 2000000000).Draw(t, "mt"))*1000000000 + int64(rapid.IntRange(0, 999999999).Draw(t, "ns"))}
			k := rapid.IntRange(0, 9).Draw(t, label+"k")
			switch {
			case k <= 2 && depth < 3:
				nd.Kind = "d"
				nd.Mode = uint32(rapid.SampledFrom([]int{0755, 0700, 0777, 01777, 02755}).Draw(t, "dm"))
				out = append(out, nd)
				rec(p, depth+1)
				continue
			case k <= 5:
				nd.Kind = "f"
				nd.Mode = uint32(rapid.SampledFrom([]int{0644, 0600, 0755, 04755, 02644, 0444, 0}).Draw(t, "fm"))
				nd.Size = rapid.SampledFrom(sizes).Draw(t, "sz")
				nd.Seed = rapid.IntRange(0, 3).Draw(t, "seed")
				if rapid.IntRange(0, 3).Draw(t, "xa") == 0 {
					nd.Xattr = map[string]string{"user.k": "v" + fmt.Sprint(nd.Seed)}
				}
				files = append(files, p)
			case k == 6 && len(files) > 0:
				nd.Kind = "h"
				nd.LinkTo = rapid.SampledFrom(files).Draw(t, "lt")
			case k == 7:
				nd.Kind = "l"
				nd.Target = rapid.SampledFrom([]string{"a", "../b", "/abs/x", "nonexistent", "."}).Draw(t, "tg")
			case k == 8:
				nd.Kind = "p"
				nd.Mode = 0600
			default:
				nd.Kind = "c"
				nd.Mode = 0660
				nd.Maj = uint32(rapid.IntRange(0, 4095).Draw(t, "maj"))
				nd.Min = uint32(rapid.SampledFrom([]int{0, 1, 255, 256, 1048575}).Draw(t, "min"))
			}
			out = append(out, nd)
		}
	}
	rec("", 0)
	return out
}

func content(seed, size int) []byte {
	b := make([]byte, size)
	x := uint32(seed*2654435761 + 12345)
	for i := range b {
		x = x*1664525 + 1013904223
		b[i] = byte(x >> 24)
	}
	return b
}

func materialise(root string, ns []tnode) error {
	for _, n := range ns {
		p := filepath.Join(root, n.Path)
		var err error
		switch n.Kind {
		case "d":
			err = os.Mkdir(p, 0755)
		case "f":
			err = os.WriteFile(p, content(n.Seed, n.Size), 0644)
		case "h":
			err = os.Link(filepath.Join(root, n.LinkTo), p)
		case "l":
			err = os.Symlink(n.Target, p)
		case "p":
			err = syscall.Mkfifo(p, 0600)
		case "c":
			err = unix.Mknod(p, unix.S_IFCHR|0600, int(unix.Mkdev(n.Maj, n.Min)))
		}
		if err != nil {
			return err
		}
	}
	// metadata, deepest first
	for i := len(ns) - 1; i >= 0; i-- {
		n := ns[i]
		if n.Kind == "h" {
			continue
		}
		p := filepath.Join(root, n.Path)
		for k, v := range n.Xattr {
			unix.Lsetxattr(p, k, []byte(v), 0)
		}
		os.Lchown(p, n.UID, n.GID)
		if n.Kind != "l" {
			m := os.FileMode(n.Mode & 0777)
			if n.Mode&04000 != 0 {
				m |= os.ModeSetuid
			}
			if n.Mode&02000 != 0 {
				m |= os.ModeSetgid
			}
			if n.Mode&01000 != 0 {
				m |= os.ModeSticky
			}
			os.Chmod(p, m)
		}
		setmt(p, n.Mtime)
	}
	return nil
}

type sent struct {
	Kind   string
	Mode   uint32
	UID    uint32
	GID    uint32
	Size   int64
	Mtime  int64
	Target string
	Rdev   uint64
	Ino    uint64
	Nlink  uint64
	Sum    string
	Xattr  string
}

func snapshot(root string) map[string]sent {
	out := map[string]sent{}
	var rec func(rel string)
	rec = func(rel string) {
		des, _ := os.ReadDir(filepath.Join(root, rel))
		for _, de := range des {
			r := filepath.Join(rel, de.Name())
			p := filepath.Join(root, r)
			var st unix.Stat_t
			if err := unix.Lstat(p, &st); err != nil {
				continue
			}
			e := sent{Mode: st.Mode & 07777, UID: st.Uid, GID: st.Gid, Mtime: st.Mtim.Nano(), Ino: st.Ino, Nlink: uint64(st.Nlink)}
			switch st.Mode & unix.S_IFMT {
			case unix.S_IFDIR:
				e.Kind = "d"
			case unix.S_IFREG:
				e.Kind = "f"
				e.Size = st.Size
				dt, _ := os.ReadFile(p)
				e.Sum = fmt.Sprintf("%x", sha256.Sum256(dt))[:12]
			case unix.S_IFLNK:
				e.Kind = "l"
				e.Target, _ = os.Readlink(p)
			case unix.S_IFIFO:
				e.Kind = "p"
			case unix.S_IFCHR:
				e.Kind = "c"
				e.Rdev = st.Rdev
			}
			buf := make([]byte, 4096)
			n, _ := unix.Llistxattr(p, buf)
			if n > 0 {
				keys := strings.Split(strings.TrimRight(string(buf[:n]), "\x00"), "\x00")
				sort.Strings(keys)
				for _, k := range keys {
					v := make([]byte, 256)
					m, _ := unix.Lgetxattr(p, k, v)
					e.Xattr += k + "=" + string(v[:m]) + ";"
				}
			}
			out[r] = e
			if e.Kind == "d" {
				rec(r)
			}
		}
	}
	rec("")
	return out
}

func groups(s map[string]sent) string {
	g := map[uint64][]string{}
	for p, e := range s {
		if e.Kind == "f" && e.Nlink > 1 {
			g[e.Ino] = append(g[e.Ino], p)
		}
	}
	var out []string
	for _, v := range g {
		sort.Strings(v)
		out = append(out, strings.Join(v, ","))
	}
	sort.Strings(out)
	return strings.Join(out, "|")
}

var stats4 = map[string]int{}

func TestZ1Sync(t *testing.T) {
	rapid.Check(t, func(t *rapid.T) {
		srcT := genT(t, "s")
		dstT := genT(t, "d")
		base, _ := os.MkdirTemp("/dev/shm", "z1")
		defer os.RemoveAll(base)
		src := filepath.Join(base, "src")
		dst := filepath.Join(base, "dst")
		os.Mkdir(src, 0755)
		os.Mkdir(dst, 0755)
		if err := materialise(src, srcT); err != nil {
			t.Fatalf("mat src %v", err)
		}
		if err := materialise(dst, dstT); err != nil {
			t.Fatalf("mat dst %v", err)
		}
		before := snapshot(dst)
		f, _ := fsutil.NewFS(src)
		e1, e2, _ := sync1(nil, f, dst, fsutil.ReceiveOpt{}, 20*time.Second)
		if e1 != nil || e2 != nil {
			t.Fatalf("sync err %v %v src=%+v dst=%+v", e1, e2, srcT, dstT)
		}
		ss := snapshot(src)
		ds := snapshot(dst)
		for p, se := range ss {
			de, ok := ds[p]
			if !ok {
				t.Fatalf("missing %q in dest; src=%+v dst=%+v", p, srcT, dstT)
			}
			created := true
			if be, ok := before[p]; ok && be.Ino == de.Ino {
				created = false
			}
			a, b := se, de
			a.Ino, b.Ino = 0, 0
			a.Nlink, b.Nlink = 0, 0
			if a.Kind == "d" {
				a.Nlink, b.Nlink = 0, 0
				if !created {
					a.Mtime, b.Mtime = 0, 0
					a.Xattr, b.Xattr = "", ""
				}
			}
			if a.Kind != "d" && a.Kind != "f" {
				a.Xattr, b.Xattr = "", ""
			}
			if a.Kind == "f" && !created {
				a.Xattr, b.Xattr = "", ""
			}
			if a != b {
				t.Fatalf("DIFF %q created=%v\n src=%+v\n dst=%+v\n srcT=%+v\n dstT=%+v", p, created, a, b, srcT, dstT)
			}
		}
		for p := range ds {
			if _, ok := ss[p]; !ok {
				t.Fatalf("extra %q in dest; src=%+v dst=%+v", p, srcT, dstT)
			}
		}
		if groups(ss) != groups(ds) {
			t.Fatalf("hardlink groups differ %q vs %q srcT=%+v dstT=%+v", groups(ss), groups(ds), srcT, dstT)
		}
		if len(dstT) > 0 {
			stats4["dirty"]++
		} else {
			stats4["fresh"]++
		}
	})
	t.Log(stats4)
}
