package probe

import (
	"context"
	"crypto/sha256"
	"fmt"
	"hash"
	"io"
	gofs "io/fs"
	"os"
	"path/filepath"
	"sort"
	"sync"
	"testing"
	"time"

	"github.com/tonistiigi/fsutil"
	"github.com/tonistiigi/fsutil/types"
	"golang.org/x/sync/errgroup"
)

type conn struct {
	ctx  context.Context
	recv chan *types.Packet
	send chan *types.Packet
	mu   sync.Mutex
	log  *[]string
	name string
}

func (c *conn) Context() context.Context { return c.ctx }
func (c *conn) RecvMsg(m interface{}) error {
	p := m.(*types.Packet)
	select {
	case <-c.ctx.Done():
		return c.ctx.Err()
	case q, ok := <-c.recv:
		if !ok {
			return io.EOF
		}
		dt, _ := q.Marshal()
		return p.Unmarshal(dt)
	}
}
func (c *conn) SendMsg(m interface{}) error {
	p := m.(*types.Packet).CloneVT()
	if c.log != nil {
		c.mu.Lock()
		s := fmt.Sprintf("%s %v id=%d len=%d", c.name, p.Type, p.ID, len(p.Data))
		if p.Stat != nil {
			s += " " + p.Stat.Path
		}
		*c.log = append(*c.log, s)
		c.mu.Unlock()
	}
	select {
	case <-c.ctx.Done():
		return c.ctx.Err()
	case c.send <- p:
		return nil
	}
}

func pair(ctx context.Context, log *[]string) (*conn, *conn) {
	a := make(chan *types.Packet, 64)
	b := make(chan *types.Packet, 64)
	return &conn{ctx: ctx, recv: a, send: b, log: log, name: "S"}, &conn{ctx: ctx, recv: b, send: a, log: log, name: "R"}
}

func listing(t *testing.T, root string) []string {
	var out []string
	filepath.Walk(root, func(p string, fi os.FileInfo, err error) error {
		if err != nil {
			return nil
		}
		r, _ := filepath.Rel(root, p)
		s := fmt.Sprintf("%s %v %d", r, fi.Mode(), fi.Size())
		if fi.Mode().IsRegular() {
			dt, _ := os.ReadFile(p)
			if len(dt) > 20 {
				dt = dt[:20]
			}
			s += fmt.Sprintf(" %q", dt)
		}
		out = append(out, s)
		return nil
	})
	return out
}

func hasher(s *types.Stat) (hash.Hash, error) {
	h := sha256.New()
	return h, nil
}

func sync1(t *testing.T, src fsutil.FS, dest string, opt fsutil.ReceiveOpt, timeout time.Duration) (error, error, []string) {
	ctx, cancel := context.WithTimeout(context.Background(), timeout)
	defer cancel()
	var log []string
	s, r := pair(ctx, &log)
	var eg errgroup.Group
	var e1, e2 error
	eg.Go(func() error { e1 = fsutil.Send(ctx, s, src, nil); close(s.send); return nil })
	eg.Go(func() error { e2 = fsutil.Receive(ctx, r, dest, opt); return nil })
	eg.Wait()
	return e1, e2, log
}

func TestP2Validator(t *testing.T) {
	for _, p := range []string{"..", ".", "", "../a", "a/..", "/a", "a//b"} {
		var v fsutil.Validator
		err := v.HandleChange(fsutil.ChangeKindAdd, p, &fsutil.StatInfo{Stat: &types.Stat{Path: p, Mode: uint32(os.ModeDir | 0755)}}, nil)
		t.Logf("validator %q -> %v", p, err)
	}
}

type memFS struct {
	stats []*types.Stat
	data  map[string][]byte
	openErr map[string]error
	readErrAfter map[string]int
}

func (m *memFS) Walk(ctx context.Context, target string, fn gofs.WalkDirFunc) error {
	for _, s := range m.stats {
		if err := fn(s.Path, &fsutil.DirEntryInfo{Stat: s.Clone()}, nil); err != nil {
			return err
		}
	}
	return nil
}

type errReader struct {
	dt  []byte
	n   int
}

func (e *errReader) Read(p []byte) (int, error) {
	if e.n <= 0 {
		return 0, fmt.Errorf("injected read error")
	}
	k := copy(p, e.dt[:min(e.n, len(e.dt))])
	e.n -= k
	e.dt = e.dt[k:]
	return k, nil
}
func (e *errReader) Close() error { return nil }

func (m *memFS) Open(p string) (io.ReadCloser, error) {
	if n, ok := m.readErrAfter[p]; ok {
		return &errReader{dt: m.data[p], n: n}, nil
	}
	return io.NopCloser(bytesReader(m.data[p])), nil
}

type br struct {
	b []byte
}

func (b *br) Read(p []byte) (int, error) {
	if len(b.b) == 0 {
		return 0, io.EOF
	}
	n := copy(p, b.b)
	b.b = b.b[n:]
	return n, nil
}
func bytesReader(b []byte) io.Reader { return &br{b} }

func TestP2ReceiveDotDot(t *testing.T) {
	base := t.TempDir()
	dest := filepath.Join(base, "parent", "dest")
	os.MkdirAll(dest, 0755)
	os.WriteFile(filepath.Join(base, "parent", "sibling"), []byte("precious"), 0644)
	before := listing(t, base)
	m := &memFS{stats: []*types.Stat{{Path: "..", Mode: 0644, Size: 3}}, data: map[string][]byte{"..": []byte("pwn")}}
	e1, e2, log := sync1(t, m, dest, fsutil.ReceiveOpt{}, 5*time.Second)
	t.Logf("send=%v recv=%v", e1, e2)
	t.Logf("log=%v", log)
	t.Logf("before=%v", before)
	t.Logf("after=%v", listing(t, base))
}

func TestP3MetadataIds(t *testing.T) {
	base := t.TempDir()
	dest := filepath.Join(base, "dest")
	os.MkdirAll(dest, 0755)
	m := &memFS{stats: []*types.Stat{
		{Path: ".fsutil-metadata", Mode: 0644, Size: 4},
		{Path: "a", Mode: 0644, Size: 2},
		{Path: "b", Mode: 0644, Size: 2},
	}, data: map[string][]byte{".fsutil-metadata": []byte("META"), "a": []byte("AA"), "b": []byte("BB")}}
	e1, e2, log := sync1(t, m, dest, fsutil.ReceiveOpt{MetadataOnly: func(p string, s *types.Stat) bool { return true }}, 5*time.Second)
	t.Logf("send=%v recv=%v", e1, e2)
	t.Logf("log=%v", log)
	t.Logf("after=%v", listing(t, dest))
}

func TestP4MetadataSelectedDir(t *testing.T) {
	base := t.TempDir()
	dest := filepath.Join(base, "dest")
	os.MkdirAll(dest, 0755)
	m := &memFS{stats: []*types.Stat{
		{Path: "d", Mode: uint32(os.ModeDir | 0755)},
		{Path: "d/a", Mode: 0644, Size: 2},
		{Path: "e", Mode: uint32(os.ModeDir | 0755)},
		{Path: "e/b", Mode: 0644, Size: 2},
	}, data: map[string][]byte{"d/a": []byte("AA"), "e/b": []byte("BB")}}
	var notes []string
	var mu sync.Mutex
	e1, e2, log := sync1(t, m, dest, fsutil.ReceiveOpt{
		MetadataOnly: func(p string, s *types.Stat) bool { return p == "d" || p == "d/a" },
		ContentHasher: hasher,
		NotifyHashed: func(k fsutil.ChangeKind, p string, fi os.FileInfo, err error) error {
			mu.Lock(); notes = append(notes, fmt.Sprintf("%v %s", k, p)); mu.Unlock(); return nil
		},
	}, 5*time.Second)
	t.Logf("send=%v recv=%v", e1, e2)
	t.Logf("log=%v", log)
	t.Logf("notes=%v", notes)
	t.Logf("after=%v", listing(t, dest))
}

func TestP5WalkOpen(t *testing.T) {
	src := t.TempDir()
	os.MkdirAll(filepath.Join(src, "a"), 0755)
	os.WriteFile(filepath.Join(src, "a", "c"), []byte("data"), 0644)
	f, _ := fsutil.NewFS(src)
	ff, err := fsutil.NewFilterFS(f, &fsutil.FilterOpt{IncludePatterns: []string{"*/c", "!a"}})
	if err != nil {
		t.Fatal(err)
	}
	var walked []string
	ff.Walk(context.Background(), "/", func(p string, e gofs.DirEntry, err error) error { walked = append(walked, p); return nil })
	t.Logf("walked=%v", walked)
	_, err = ff.Open("a/c")
	t.Logf("open a/c err=%v", err)
	dest := t.TempDir()
	e1, e2, _ := sync1(t, ff, dest, fsutil.ReceiveOpt{}, 5*time.Second)
	t.Logf("send=%v recv=%v after=%v", e1, e2, listing(t, dest))
}

func TestP6FollowLinks(t *testing.T) {
	src := t.TempDir()
	os.MkdirAll(filepath.Join(src, "d"), 0755)
	os.WriteFile(filepath.Join(src, "d", "x"), []byte("X"), 0644)
	os.WriteFile(filepath.Join(src, "d", "y"), []byte("Y"), 0644)
	os.Symlink("d", filepath.Join(src, "l"))
	f, _ := fsutil.NewFS(src)
	out, err := fsutil.FollowLinks(f, []string{"l/x", "l/y"})
	t.Logf("out=%v err=%v", out, err)
	// wildcard in middle
	os.MkdirAll(filepath.Join(src, "w", "a"), 0755)
	os.WriteFile(filepath.Join(src, "t"), []byte("T"), 0644)
	os.Symlink("../../t", filepath.Join(src, "w", "a", "x"))
	out, err = fsutil.FollowLinks(f, []string{"w/*/x"})
	t.Logf("out=%v err=%v", out, err)
	out, err = fsutil.FollowLinks(f, []string{"../zz", "a/../b"})
	t.Logf("out=%v err=%v", out, err)
}

func TestP7ReadErrorHang(t *testing.T) {
	dest := t.TempDir()
	m := &memFS{stats: []*types.Stat{{Path: "a", Mode: 0644, Size: 100000}}, data: map[string][]byte{"a": make([]byte, 100000)}, readErrAfter: map[string]int{"a": 40000}}
	t0 := time.Now()
	e1, e2, log := sync1(t, m, dest, fsutil.ReceiveOpt{}, 3*time.Second)
	t.Logf("elapsed=%v send=%v recv=%v", time.Since(t0), e1, e2)
	t.Logf("log=%v", log)
}

func TestP8DirChmodNotify(t *testing.T) {
	src := t.TempDir()
	dest := t.TempDir()
	os.MkdirAll(filepath.Join(src, "d"), 0755)
	os.WriteFile(filepath.Join(src, "d", "f"), []byte("X"), 0644)
	f, _ := fsutil.NewFS(src)
	e1, e2, _ := sync1(t, f, dest, fsutil.ReceiveOpt{}, 5*time.Second)
	t.Logf("first: %v %v", e1, e2)
	os.Chmod(filepath.Join(src, "d"), 0700)
	var notes []string
	var mu sync.Mutex
	e1, e2, log := sync1(t, f, dest, fsutil.ReceiveOpt{ContentHasher: hasher, NotifyHashed: func(k fsutil.ChangeKind, p string, fi os.FileInfo, err error) error {
		mu.Lock(); notes = append(notes, fmt.Sprintf("%v %s", k, p)); mu.Unlock(); return nil
	}}, 5*time.Second)
	t.Logf("second: %v %v notes=%v log=%v", e1, e2, notes, log)
	t.Logf("after=%v", listing(t, dest))
}

func TestP9SymlinkXattr(t *testing.T) {
	base := t.TempDir()
	dest := filepath.Join(base, "dest")
	os.MkdirAll(dest, 0755)
	outside := filepath.Join(base, "outside")
	os.WriteFile(outside, []byte("precious"), 0644)
	m := &memFS{stats: []*types.Stat{{Path: "l", Mode: uint32(os.ModeSymlink | 0777), Linkname: outside, Xattrs: map[string][]byte{"user.pwn": []byte("1")}}}}
	e1, e2, _ := sync1(t, m, dest, fsutil.ReceiveOpt{}, 5*time.Second)
	t.Logf("send=%v recv=%v", e1, e2)
	st, _ := fsutil.Stat(outside)
	t.Logf("outside xattrs=%v", st.Xattrs)
}

func TestP10MapExcludeDir(t *testing.T) {
	src := t.TempDir()
	os.MkdirAll(filepath.Join(src, "d"), 0755)
	os.WriteFile(filepath.Join(src, "d", "f"), []byte("X"), 0644)
	f, _ := fsutil.NewFS(src)
	ff, _ := fsutil.NewFilterFS(f, &fsutil.FilterOpt{Map: func(p string, s *types.Stat) fsutil.MapResult {
		if p == "d" {
			return fsutil.MapResultExclude
		}
		return fsutil.MapResultKeep
	}})
	var walked []string
	ff.Walk(context.Background(), "/", func(p string, e gofs.DirEntry, err error) error { walked = append(walked, p); return nil })
	sort.Strings(walked)
	t.Logf("walked=%v", walked)
}
