package probe

import (
	"context"
	"os"
	"regexp"
	"runtime"
	"strings"
	"testing"
	"time"

	"github.com/tonistiigi/fsutil"
	"github.com/tonistiigi/fsutil/types"
)

var hdr = regexp.MustCompile(`^goroutine (\d+) \[([^\]]+)\]:`)

func fsutilGoroutines() []string {
	buf := make([]byte, 1<<20)
	n := runtime.Stack(buf, true)
	var out []string
	for _, g := range strings.Split(string(buf[:n]), "\n\n") {
		if !strings.Contains(g, "github.com/tonistiigi/fsutil.") {
			continue
		}
		m := hdr.FindStringSubmatch(g)
		if m == nil {
			continue
		}
		lines := strings.Split(g, "\n")
		top := ""
		for _, l := range lines[1:] {
			if strings.Contains(l, "fsutil.") {
				top = strings.TrimSpace(l)
				break
			}
		}
		out = append(out, m[2]+" | "+top)
	}
	return out
}

func TestU1Quiesce(t *testing.T) {
	dest := t.TempDir()
	m := &memFS{stats: []*types.Stat{{Path: "a", Mode: 0644, Size: 100000}}, data: map[string][]byte{"a": make([]byte, 100000)}, readErrAfter: map[string]int{"a": 40000}}
	ctx, cancel := context.WithCancel(context.Background())
	s, r := pair(ctx, nil)
	done := make(chan struct{}, 2)
	go func() { fsutil.Send(ctx, s, m, nil); done <- struct{}{} }()
	go func() { fsutil.Receive(ctx, r, dest, fsutil.ReceiveOpt{}); done <- struct{}{} }()
	time.Sleep(200 * time.Millisecond)
	for _, g := range fsutilGoroutines() {
		t.Log("STUCK:", g)
	}
	cancel()
	<-done
	<-done
	time.Sleep(50 * time.Millisecond)
	t.Log("after:", fsutilGoroutines())
	_ = os.Remove
}
