package probe

import (
	"os"
	"path/filepath"
	"testing"
	"time"

	"github.com/tonistiigi/fsutil"
	"github.com/tonistiigi/fsutil/types"
)

func TestV1UnprivSuid(t *testing.T) {
	t.Log("uid", os.Getuid())
	src := t.TempDir()
	dest := t.TempDir()
	os.WriteFile(filepath.Join(src, "suid"), []byte("data"), 0755)
	os.Chmod(filepath.Join(src, "suid"), 0755|os.ModeSetuid|os.ModeSetgid)
	os.WriteFile(filepath.Join(src, "suidempty"), nil, 0755)
	os.Chmod(filepath.Join(src, "suidempty"), 0755|os.ModeSetuid)
	os.WriteFile(filepath.Join(src, "ro"), []byte("readonly"), 0444)
	f, _ := fsutil.NewFS(src)
	e1, e2, _ := sync1(t, f, dest, fsutil.ReceiveOpt{Filter: func(p string, s *types.Stat) bool { return true }}, 5*time.Second)
	t.Log(e1, e2)
	for _, l := range listing(t, src) {
		t.Log("SRC", l)
	}
	for _, l := range listing(t, dest) {
		t.Log("DST", l)
	}
}
