package probe

import (
	"context"
	"fmt"
	gofs "io/fs"
	"os"
	"path/filepath"
	"sort"
	"testing"

	"github.com/tonistiigi/fsutil"
	fscopy "github.com/tonistiigi/fsutil/copy"
	"pgregory.net/rapid"
)

var stats2 = map[string]int{}

func TestX2CopyFilter(t *testing.T) {
	rapid.Check(t, func(t *rapid.T) {
		tree := genTree(t)
		var paths []string
		for _, e := range tree {
			paths = append(paths, e.path)
		}
		ni := rapid.IntRange(0, 3).Draw(t, "ni")
		ne := rapid.IntRange(0, 3).Draw(t, "ne")
		var inc, exc []string
		for i := 0; i < ni; i++ {
			inc = append(inc, genPattern(t, paths))
		}
		for i := 0; i < ne; i++ {
			exc = append(exc, genPattern(t, paths))
		}
		root, _ := os.MkdirTemp("/dev/shm", "x2s")
		defer os.RemoveAll(root)
		dst, _ := os.MkdirTemp("/dev/shm", "x2d")
		defer os.RemoveAll(dst)
		for _, e := range tree {
			if e.dir {
				os.MkdirAll(filepath.Join(root, e.path), 0755)
			} else {
				os.WriteFile(filepath.Join(root, e.path), []byte("x"), 0644)
			}
		}
		var walked []string
		err := fsutil.WalkDir(context.Background(), root, &fsutil.FilterOpt{IncludePatterns: inc, ExcludePatterns: exc}, func(p string, d gofs.DirEntry, err error) error {
			if err != nil {
				return err
			}
			walked = append(walked, p)
			return nil
		})
		if err != nil {
			stats2["walk-error"]++
			return
		}
		err = fscopy.Copy(context.Background(), root, "/", dst, "/", fscopy.WithCopyInfo(fscopy.CopyInfo{IncludePatterns: inc, ExcludePatterns: exc, CopyDirContents: true}))
		if err != nil {
			t.Fatalf("copy err %v inc=%q exc=%q", err, inc, exc)
		}
		var copied []string
		filepath.Walk(dst, func(p string, fi os.FileInfo, err error) error {
			r, _ := filepath.Rel(dst, p)
			if r != "." {
				copied = append(copied, r)
			}
			return nil
		})
		sort.Slice(copied, func(i, j int) bool { return fsutil.ComparePath(copied[i], copied[j]) < 0 })
		if fmt.Sprint(copied) != fmt.Sprint(walked) {
			t.Fatalf("MISMATCH inc=%q exc=%q tree=%v walked=%v copied=%v", inc, exc, paths, walked, copied)
		}
		stats2["agree"]++
	})
	t.Log(stats2)
}
