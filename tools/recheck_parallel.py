#!/usr/bin/env python3
"""Parallel variant of recheck_seeds.py for the end of a long session.

usage: tools/recheck_parallel.py <workers> [id-prefix ...]

Each worker owns a copy of /verif (without .git and seeded/) under /var/tmp/vw<i> and a scratch
worktree of /repo's HEAD; a seeded change is applied to that worktree and the worker's copy of the
check is pointed at it with VERIF_REPO_OVERRIDE (tools/try_seed_wt.sh). /repo itself is not touched,
so this can run next to other work. Results go to seeded/<id>/meta.json like recheck_seeds.py
(check_via = "scratch worktree of HEAD"). Patches that no longer apply are rebased with
`git apply --3way` (kept as patch.rebased.diff when the result builds), else reported NEEDS-REBASE."""
import glob, json, os, re, subprocess, sys, threading

ROOT = os.path.dirname(os.path.dirname(os.path.abspath(__file__)))
ENV = dict(os.environ, GOFLAGS="-mod=mod", GOPROXY="off", GOSUMDB="off", GOTOOLCHAIN="local")
lock = threading.Lock()


def sh(cmd, cwd=None, timeout=3000, env=None):
    p = subprocess.run(cmd, shell=True, cwd=cwd, env=env or ENV, stdout=subprocess.PIPE, stderr=subprocess.STDOUT, text=True, errors="replace", timeout=timeout)
    return p.returncode, p.stdout


def worker(i, ids, res):
    vdir = "/var/tmp/vw%d" % i
    base = "/tmp/rcw%d" % i
    sh("rm -rf %s && mkdir -p %s && rsync -a --exclude .git --exclude seeded --exclude 'replays/*/quick-*' --exclude 'replays/*/thorough-*' %s/ %s/" % (vdir, vdir, ROOT, vdir))
    sh("git -C /repo worktree remove --force %s; git -C /repo worktree add --detach %s HEAD" % (base, base))
    try:
        for sid in ids:
            d = os.path.join(ROOT, "seeded", sid)
            mp = os.path.join(d, "meta.json")
            m = json.load(open(mp))
            patch = None
            for cand in ("patch.rebased.diff", "patch.diff"):
                f = os.path.join(d, cand)
                if os.path.exists(f) and sh("git apply --check %s" % f, cwd=base)[0] == 0:
                    sh("git apply %s" % f, cwd=base)
                    ok = sh("go build ./...", cwd=base)[0] == 0
                    sh("git checkout -- . && git clean -fdq", cwd=base)
                    if ok:
                        patch = f
                        break
            if patch is None:
                rc, out = sh("git apply --3way %s" % os.path.join(d, "patch.diff"), cwd=base)
                rc2, diff = sh("git diff HEAD", cwd=base)
                good = rc == 0 and "<<<<<<<" not in diff and sh("go build ./...", cwd=base)[0] == 0
                sh("git reset -q --hard && git clean -fdq", cwd=base)
                if good:
                    patch = os.path.join(d, "patch.rebased.diff")
                    open(patch, "w").write(diff)
            if patch is None:
                with lock:
                    print(sid, "NEEDS-REBASE", flush=True)
                    res.append((sid, "needs-rebase"))
                continue
            rc, out = sh("TRY_LINES=3 VDIR=%s %s/tools/try_seed_wt.sh %s %s quick" % (vdir, ROOT, patch, m.get("check_property", m["property"])), cwd=ROOT)
            mm = re.search(r"exit=(\d+)", out)
            m["check_exit"] = int(mm.group(1)) if mm else None
            m["check_detects"] = bool(mm and mm.group(1) == "1")
            m["check_output_excerpt"] = out[-900:]
            m["patch_used"] = os.path.basename(patch)
            m["check_via"] = "scratch worktree of /repo's HEAD (tools/recheck_parallel.py)"
            json.dump(m, open(mp, "w"), indent=1)
            with lock:
                print(sid, "exit=%s" % m["check_exit"], "detects=%s" % m["check_detects"], flush=True)
                res.append((sid, m["check_detects"]))
    finally:
        sh("git -C /repo worktree remove --force %s" % base)
        sh("rm -rf %s" % vdir)


def main():
    n = int(sys.argv[1])
    want = sys.argv[2:]
    ids = [os.path.basename(d) for d in sorted(glob.glob(os.path.join(ROOT, "seeded", "*")))]
    ids = [s for s in ids if not want or any(s.startswith(w) for w in want)]
    res, ts = [], []
    for i in range(n):
        t = threading.Thread(target=worker, args=(i, ids[i::n], res))
        t.start()
        ts.append(t)
    for t in ts:
        t.join()
    missed = sorted(s for s, r in res if r is not True)
    print("rechecked %d, not detected / problems: %s" % (len(res), missed))


if __name__ == "__main__":
    main()
