#!/usr/bin/env python3
"""Re-run the registered quick check against every seeded change and refresh
check_exit/check_detects in seeded/<id>/meta.json.

usage: tools/recheck_seeds.py [id-prefix ...]      e.g. tools/recheck_seeds.py C03 C14-e

A patch that no longer applies to /repo's HEAD (later fix: commits touched the same
lines) is tried with `git apply --3way` in a scratch worktree and stored rebased as
seeded/<id>/patch.rebased.diff; if that fails too it is reported as NEEDS-REBASE.
Do not run other checks against /repo while this runs (the change is applied to
/repo's working tree and reverted after each check)."""
import glob, json, os, re, subprocess, sys

ROOT = os.path.dirname(os.path.dirname(os.path.abspath(__file__)))


def sh(cmd, cwd=None, timeout=2400):
    p = subprocess.run(cmd, shell=True, cwd=cwd, stdout=subprocess.PIPE, stderr=subprocess.STDOUT, text=True, errors="replace", timeout=timeout)
    return p.returncode, p.stdout


def applicable(patch):
    rc, _ = sh("git -C /repo apply --check %s" % patch)
    return rc == 0


def rebase(d, patch):
    wt = "/tmp/rb-" + os.path.basename(d)
    sh("git -C /repo worktree remove --force %s" % wt)
    rc, out = sh("git -C /repo worktree add --detach %s HEAD" % wt)
    if rc != 0:
        return None
    try:
        rc, out = sh("git apply --3way %s" % patch, cwd=wt)
        if rc != 0:
            return None
        rc, diff = sh("git diff HEAD", cwd=wt)
        if "<<<<<<<" in diff:
            return None
        rc, _ = sh("GOPROXY=off GOSUMDB=off GOTOOLCHAIN=local go build ./...", cwd=wt)
        if rc != 0:
            return None
        out = os.path.join(d, "patch.rebased.diff")
        open(out, "w").write(diff)
        return out
    finally:
        sh("git -C /repo worktree remove --force %s" % wt)


def main():
    want = sys.argv[1:]
    res = []
    for d in sorted(glob.glob(os.path.join(ROOT, "seeded", "*"))):
        sid = os.path.basename(d)
        if want and not any(sid.startswith(w) for w in want):
            continue
        mp = os.path.join(d, "meta.json")
        m = json.load(open(mp))
        patch = os.path.join(d, "patch.diff")
        rb = os.path.join(d, "patch.rebased.diff")
        if os.path.exists(rb) and applicable(rb):
            patch = rb  # (also when the original still applies textually but no longer builds)
        elif not applicable(patch):
            if False:
                pass
            else:
                patch = rebase(d, patch)
                if patch is None:
                    print(sid, "NEEDS-REBASE")
                    res.append((sid, "needs-rebase"))
                    continue
        rc, out = sh("TRY_LINES=3 %s/tools/try_seed.sh %s %s quick" % (ROOT, patch, m.get("check_property", m["property"])), cwd=ROOT)
        mm = re.search(r"exit=(\d+)", out)
        m["check_exit"] = int(mm.group(1)) if mm else None
        m["check_detects"] = bool(mm and mm.group(1) == "1")
        m["check_output_excerpt"] = out[-900:]
        m["patch_used"] = os.path.basename(patch)
        json.dump(m, open(mp, "w"), indent=1)
        print(sid, "exit=%s" % m["check_exit"], "detects=%s" % m["check_detects"], flush=True)
        res.append((sid, m["check_detects"]))
    missed = [s for s, r in res if r is not True]
    print("rechecked %d, not detected / problems: %s" % (len(res), missed))


if __name__ == "__main__":
    main()
