#!/usr/bin/env python3
"""Regenerates /verif/MANIFEST.json from the table below (kept in one place so
the manifest is always valid and in sync with what is implemented)."""
import json, os, sys

ROOT = os.path.dirname(os.path.dirname(os.path.abspath(__file__)))

CLAIMS = {
    "C12": dict(
        technique="exhaustive small-scope enumeration + rapid (mutated DFS listings) + native fuzz, differential against an executable specification",
        text="Validator verdict and first-rejected index are compared with an independent ~20-line specification predicate on every sequence of length <=3 (quick) / <=4 (thorough) over 28 well- and ill-formed paths x {dir, file, delete, modified dir, modified file} (exhaustive within the bound), on thousands of generated longer sequences (legal listings up to depth 46 with 0-3 mutations), and under coverage-guided fuzzing (thorough). ComparePath is compared with component-wise order and checked for the strict-total-order axioms on all pairs/triples of a 65-path set. Exhaustive within bounds, sampled beyond; no proof.",
        note="Trusts harness.StreamSpec/CmpComponents as the meaning of the statement. Alphabet and length bounds as stated in evidence.",
        ref="4 C12"),
    "C20": dict(
        technique="rapid round-trip and differential testing (VT codec vs google.golang.org/protobuf), fragmentation plans over util.NewProtoStream, hostile/mutated byte strings with an allocation bound; go native fuzz in thorough",
        text="Generated Packet/Stat values (extreme ints, unknown enum values, nil/empty data, binary xattrs, 40 KB strings, invalid UTF-8) are encoded and decoded with both codecs in both directions and compared field by field; packet sequences incl. empty and >32 KiB packets are written through util.NewProtoStream and read back under drawn fragmentations (1-byte reads to whole-stream), compared only after the stream is drained so buffer aliasing shows; arbitrary, mutated and hostile byte strings must decode or fail without panic within an allocation bound. Thorough adds three coverage-guided fuzz campaigns. Sampled, no proof.",
        note="Trusts google.golang.org/protobuf as the generic runtime; allocation measured via runtime.MemStats deltas. Values with non-UTF-8 strings are a listed known finding for the cross-codec clause only (VT-only clauses still checked).",
        ref="4 C20"),
    "C09": dict(
        technique="rapid-generated on-disk trees, differential against an independent lstat/readlink/listxattr snapshot sorted by component order",
        text="Thousands of generated trees (all entry types incl. sockets, hard-link groups of regular and special files, 255-byte/invalid-UTF-8/glob-character names, names built so bytewise and component order differ, xattrs in three namespaces) are materialised on tmpfs and walked through Walk, WalkDir, NewFS.Walk (root and sub-target) and SubDirFS composites; the reported sequence and every stat field are compared both ways with the harness's own snapshot. Sampled, no proof.",
        note="Trusts the kernel's lstat/readlink/xattr syscalls and harness.CmpComponents. tmpfs only.",
        ref="4 C09"),
    "C10": dict(
        technique="rapid-generated trees x pattern grammars x map tables, differential against a naive unpruned reference filter; known dependency divergence classified by a chain model",
        text="The real filtered walk (pruning, incremental parent results, lazy ancestors, map handling) is compared as a sequence of (path, stat) with a naive evaluation over the complete snapshot listing that uses a fresh patternmatcher per list and no pruning. Mismatches that the unpruned MatchesUsingParentResults chain model reproduces exactly are the listed known finding; everything else is a violation. Sampled, no proof.",
        note="Trusts moby/patternmatcher.MatchesOrParentMatches as the meaning of a pattern list. Map-call order on lazily emitted ancestors that return SkipDir is treated as unspecified (structural clauses only there).",
        ref="4 C10"),
    "C01": dict(
        technique="rapid-generated (source tree, prior destination, option) triples run through the real Send/Receive pair over a harness stream; oracle = independent lstat snapshot vs the tree model",
        text="Tens of thousands of generated source trees and prior destinations (independent trees over a colliding name pool, or 1-5 model edits of the source; fresh, dirty and merge mode; on-disk and synthetic sources; differ metadata/none; owner-rewriting filter; stream capacities 0-64) are synchronised with the real sender and receiver; the destination is then observed with the harness's own lstat/readlink/xattr/sha256 walker and compared two-directionally with the model (path set, types, bytes, 12 mode bits, owner, link targets, device numbers, hard-link partition, ns mtimes, xattrs; merge: overlay with survivors inode-identical). Sampled, no proof.",
        note="Main run: privileged receiver on tmpfs (last shard on ext4), one case in four through the leftovers of an aborted run; a sub-run executes both ends as uid 1000 in a chrooted sub-process. Trees include files with security.capability and non-root owners. Files with equal identity are given equal bytes (precondition of identity-based differencing). Error returns are counted, not judged (C04). Sources that return their last bytes together with io.EOF; an id-shifting (non-idempotent) receiver filter; one case in ten with the destination on another file system.",
        ref="4 C01"),
    "C02": dict(
        technique="rapid-generated edit histories (stateful: sync, edit, re-sync ...) against the real Send/Receive; oracle = harness-side identity function over announced STATs and an independent snapshot, REQ log mapped through the STAT index",
        text="Thousands of histories (initial tree, then up to 4 rounds of 0-4 model edits of 16 kinds followed by a re-sync, differ metadata or none, with and without an owner-rewriting filter, on-disk and synthetic sources) are run through the real pair. For every re-sync the set of content requests observed on the wire must equal the set of regular non-link entries whose identity key (computed by the harness from the statement) differs or that are new; equal-key entries must keep inode, bytes, mode, owner and mtime; directories are updated in place; an all-equal re-sync must produce zero requests and zero notifications; the final state must equal the source. Sampled, no proof.",
        note="The timing-dependent hard-link exception of the statement is modelled as a 'may' set (old link members whose named first member is deleted or replaced). A sub-run repeats 'transfer, then re-sync of the unchanged source' with both ends as uid 1000. Receiver filters include an id shift that is not idempotent.",
        ref="4 C02"),
    "C05": dict(
        technique="rapid-generated edit histories; oracle = replay of the notification log on a model of the old destination + harness identity function + digests recomputed from the STAT log and bytes read back",
        text="The same histories as C02 (differ=metadata) are run with NotifyHashed and a header-seeded ContentHasher. Each sync's notification log is replayed on the old destination's path set and must yield the new one; every changed or new path must be reported exactly once with the metadata as sent; unchanged paths must not be reported; delete events must be exactly the top-most removed paths; each digest must equal H(header of the stat as sent || bytes now stored). Sampled, no proof.",
        note="add and modify are both treated as 'set entry' (the statement does not require them to be told apart). Merge mode and differ=none are outside C05.",
        ref="4 C05"),
    "C06": dict(
        technique="rapid-generated source views x request scripts executed by an independent reference receiver against the real Send; protocol monitor over the complete packet log; termination decided by goroutine quiescence",
        text="The real sender is driven by a reference receiver written only from the protocol description (any subset/order of requests, eager requests racing the STAT stream, unpaced bursts of up to 300 requests on capacity-0..64 streams, slow reader, illegal requests; one case in four follows, in the same process, a Send that was cut off in the middle of a file). Every packet it emits is checked: STAT sequence equals the view's listing in component order followed by exactly one marker, per-id framing (payload concatenation = file bytes, exactly one terminator, nothing after, nothing unrequested), FIN echoed exactly once then success, illegal ids fail the call, progress callbacks monotone with one final call. Sampled schedules and scripts, no proof.",
        note="Closed-loop pairing of fsutil's own two ends is avoided; the trusted peer is harness/refrecv.go (two-threaded or single-threaded); one case in four runs the sender over util.NewProtoStream behind an independent framing bridge. Requests for not-yet-announced ids and for link members are outside the domain. One small case in six is a SubDirFS composite handed over unsorted.",
        ref="4 C06"),
    "C07": dict(
        technique="rapid-generated STAT sequences, chunkings and interleavings executed by an independent reference sender against the real Receive; protocol monitor over the packet log; on-disk check while the receiver waits for the FIN echo",
        text="The real receiver is driven by a reference sender written only from the protocol description (synthetic stats incl. hard-link layouts and special files, prior destinations with identity-equal files, chunkings from 1 byte to 1 MiB, drawn interleavings of ids, DATA racing later STATs, fan-out up to 1100 pending requests, early end of stream). Checked: each REQ names an already-announced regular non-link file whose identity differs, once; FIN only after marker and all terminators; at FIN time every file already holds exactly the bytes sent; success after echo+close, error on early end; final tree equals what was announced. Sampled, no proof.",
        note="Trusted peer is harness/refsend.go. Hard-link timing exception as in C02. A sub-run runs the receiver as uid 1000 (chrooted sub-process) against the same reference sender. One script in four: single-threaded sender on a transport of capacity 0-1.",
        ref="4 C07"),
    "C19": dict(
        technique="rapid-generated trees x selectors x prior destinations through the real Send/Receive pair in metadata-only mode; own listing decoder, REQ log mapped through the STAT index, C01's snapshot oracle on the materialised subset",
        text="Generated trees (incl. a root or nested entry with the listing's own name, prefix-colliding directory names, listings from a few records to ~150 KiB, one stat larger than a 32 KiB chunk) are transferred with a drawn selector (none, all, files, directories, subsets closed under link source) into fresh and populated destinations that may hold an old listing file or (dangling) symlink of that name, merge on/off. The listing is decoded with an independent decoder and must equal the announced STATs in order; content requests must be exactly the selected regular files by their true STAT index; the destination minus the listing must equal the selected entries plus ancestors with stale entries removed; every materialised entry is notified once and nothing else is. Sampled, no proof.",
        note="A root entry with the listing name that is a non-empty directory (or a hard-link source) is outside the domain; merge mode is checked for presence of selected entries only. One case in six has the destination on another file system than TMPDIR.",
        ref="4 C19"),
    "C11": dict(
        technique="rapid-generated trees with hard-link groups x filter stacks through the real Send/Receive pair; stream specification + link-closure monitor on the STAT log, C01's snapshot oracle on the filtered view, walk/Open agreement",
        text="Generated on-disk trees with hard-link groups of regular files and fifos spread over directories are wrapped in 1-2 nested NewFilterFS levels (include, exclude, follow-paths) and sent with the real sender. The STAT log must satisfy the independent stream specification and every link must name an earlier non-link entry; the transfer must succeed and the destination must equal the filtered walk's entries with a hard-link partition recomputed from source inodes restricted to reported paths; the announced path set must equal an independent reference view computed level by level (naive filter over the ordered pattern list, follow-path targets from the harness's own resolver); every reported regular file must open through the view with its bytes and every hidden one must not. Sampled, no proof.",
        note="Walk/Open disagreements on paths where the dependency's MatchesOrParentMatches and MatchesUsingParentResults disagree are the listed known finding; everything else is a violation.",
        ref="4 C11"),
    "C16": dict(
        technique="rapid-generated trees x pattern lists through copy.Copy, three-way differential: written path set vs naive reference filter vs real filtered Walk; snapshot comparison of what was written and of what must stay untouched",
        text="copy.Copy with include/exclude patterns is run on generated trees into empty and populated destinations (unrelated old files, existing copies of source directories, old non-directories at source paths incl. the paths of unselected directories); sources contain hard-link groups that the patterns split. The set of written paths must equal the reference filter's kept set plus ancestors and the set a filtered walk reports; nothing else may be created, changed or removed; written entries (including ancestors created on demand) must carry the source's type, bytes, mode, owner and xattrs, and the hard-link partition of the written set must be the source's restricted to it. Sampled, no proof.",
        note="Same dependency-divergence known finding as C10 (copy and walk agree with each other there).",
        ref="4 C16"),
    "C13": dict(
        technique="rapid-generated trees x copy shapes x option sets through copy.Copy; differential against an independent snapshot of the source subtree with the options applied",
        text="copy.Copy is run on generated on-disk trees (hard-link groups, symlinks of all shapes, fifos, char and block devices, special mode bits, ns mtimes, xattrs) for the whole tree, a sub-directory, a single file, a single symlink (follow on/off) and a single special file, into a new name, a nested not-yet-existing path, the root or an existing directory, under every subset of {chown, octal mode, symbolic mode, utime, xattr handler} with a change notifier. The copy is observed with the harness's own lstat walker and compared two-directionally with the source subtree after applying the options (symbolic modes via the dchapes-mode dependency on the full source mode), including the hard-link partition, owner/timestamp of created parents and the exact multiset of notifier calls. Sampled, no proof.",
        note="Meaning of symbolic mode strings is the dchapes-mode dependency's. tmpfs, privileged. An existing destination root that stands for the copied directory must take its timestamp.",
        ref="4 C13"),
    "C15": dict(
        technique="rapid-generated (source tree, destination tree, arguments, options) against an executable overlay model written from the statement; repeat-application (idempotence) as a metamorphic relation",
        text="Source and destination trees over a 4-name universe (so every type pair collides) are combined with source arguments ('/', any entry, wildcards), destination arguments (existing directory/non-directory, new, nested new, trailing separator) and the options dir-contents / always-replace / wildcards. The harness's overlay model (destination selection, merge, replace, conflict => error with obstacle intact, always-replace) must agree with the real copy on success vs error and, on success, on the complete resulting tree; the same copy is then repeated and must agree with the model again and change nothing when its landing place is unchanged. A second sub-run states 'wildcard sources behave as the union of their matches' as a metamorphic relation for any destination argument: the wildcard copy must give the verdict and tree of copying its matches one by one. Sampled, no proof.",
        note="Destination arguments through symlinks are C14's domain; metadata of merged directories and of created parents is unspecified; wildcard sources go to directory-like destinations and are not combined with hard-linked sources. Follow-links for single-path sources is modelled (the link's own name, the target's content).",
        ref="4 C15"),
    "C03": dict(
        technique="rapid-generated hostile packet scripts (legal STAT sequences with 0-3 mutations and packet injections) executed by a reference sender against the real Receive inside a chrooted sub-process; lstat-only snapshot of the whole jail; independent stream classification; native fuzz over the same generator in thorough",
        text="A hostile reference sender feeds the real receiver mutated streams ('..', '.', empty, absolute, unclean, backslashed and NUL paths; unordered, duplicated and parent-less entries; children of files and symlinks; hard links to unknown/escaping names incl. special mode bits; symlinks with xattrs and outside targets; unsolicited, late and oversized DATA; early FIN/ERR/marker/EOF; legal symlink entries named like the writer's temporary files) into destinations that already hold symlinks to an outside sentinel tree, in normal, merge, metadata-only and merge+metadata-only mode. The receiver runs chrooted in a throw-away jail; the parent compares an lstat snapshot of everything outside dest (incl. dest's own entry and its parent) bit for bit, and checks that a stream the independent classification calls offending at entry k fails and applies nothing from k on, and that a process crash never happens. Sampled + coverage-guided (thorough), no proof.",
        note="TOCTOU races with a concurrently changing destination are out of scope. A hard link naming an earlier directory/symlink/link member is 'unspecified' (containment only).",
        ref="4 C03"),
    "C14": dict(
        technique="rapid-generated symlink-laden (source tree, destination tree, src path, dst path, options) through copy.Copy inside a chrooted sub-process; lstat-only snapshot of the jail; byte provenance through unique file contents",
        text="Source and destination trees are planted with symlinks of every hostile shape (absolute to a sentinel tree, '..' beyond the root, dangling, to not-yet-existing outside names, loops) and the src/dst arguments are drawn to pass through them; follow-links, wildcards, always-replace, dir-contents, include/exclude patterns and the Mode/ModeStr/Chown/Utime options are varied, source trees contain hard-link groups, and a steered scenario makes the destination parent of the first selected entry a symlink leading outside. The real Copy runs chrooted; afterwards every entry outside the destination root (sentinel tree and the entire source root) must be bit-identical incl. ctime, nothing may have been created there, and every new or changed regular file under the destination root must carry the unique bytes of a file inside the source root. Sampled, no proof.",
        note="TOCTOU with concurrent mutation is out of scope; the exact landing place for symlinked arguments is not asserted beyond containment and byte provenance.",
        ref="4 C14"),
    "C17": dict(
        technique="rapid-generated views (on-disk, synthetic, filtered with hard-link reset and a second name-hiding Map layer) through WriteTar; differential against archive/tar's reader, an own minimal extractor and (thorough) GNU tar; C01's snapshot oracle on the extracted tree",
        text="WriteTar output for generated views is parsed with archive/tar to EOF and compared member by member with the view's entries in walk order (names with trailing slash, exact bytes, payload-free link members, device numbers, 12 mode bits, owner, mtime to the second, SCHILY.xattr records); the archive is then extracted by an own minimal extractor and, in the thorough tier, by GNU tar, and the result is compared with the view using C01's snapshot comparison at second granularity incl. the hard-link partition. Sampled, no proof.",
        note="Trusts archive/tar's reader and GNU tar 1.34. Filtered views are wrapped in WithHardlinkReset (the form Send uses). Walk/Open divergence of the dependency is the listed known finding.",
        ref="4 C17"),
    "C18": dict(
        technique="rapid-generated symlink graphs x request lists through FollowLinks; oracle = chroot-style reference resolver on the tree model (coverage obligations), structural invariants, Walk-call counting for termination, end-to-end transfer with the requests as follow-paths",
        text="FollowLinks is run on generated trees with relative, absolute, escaping, chained, cyclic, self-referential and dangling links and request lists with existing, missing, through-link and wildcard paths (one case in six steered to 'a requested directory plus a link into it whose target leads out again'), on on-disk and synthetic file systems wrapped in a Walk counter. Checked: termination (<=10^4 Walk calls), result sorted / prefix-free / relative / empty when a request resolves to the root, every symlink the reference resolver traverses and every final location covered by an element, and after a real transfer with those follow-paths every request resolves to the same location, type and bytes in the destination. Sampled, no proof.",
        note="Three root causes in followlinks.go (guard keyed by link, wildcard in a middle component, lexical cleaning of link targets) are listed known findings with heuristic classifiers; wildcard expansion through symlinked directories is not modelled by the reference.",
        ref="4 C18"),
    "C04": dict(
        category="fault_enumeration",
        technique="rapid-drawn base cases, then exhaustive enumeration of the fault position k for every fault kind through harness-owned stream/source/callback hooks; termination decided by goroutine-dump quiescence under an explicit transport model; C01's snapshot oracle for 'no false success' and for the follow-up transfer",
        text="For each generated base case (small trees and 150-300-file fan-out, capacities 0/1/32, fresh and dirty destinations, notify on/off) one fault-free run counts the operations; then every position k is run for each kind: stream broken at the k-th SendMsg/RecvMsg of either endpoint, either call's context cancelled after its k-th packet, walk error at entry k, read error after j bytes of file k, ContentHasher/NotifyHashed error at call k, and the peer dying right before its k-th packet gets through with the transport reporting a clean io.EOF. The harness tears an endpoint down only by the fault, its context, or the peer's return; a run is 'stuck' iff every goroutine with an fsutil frame is blocked with an unchanged stack (no wall-clock verdict). Checked per run: both calls return, no fsutil goroutine survives, Receive==nil implies destination equals source, Send==nil implies the receiver's FIN reached it, and a follow-up fault-free transfer into the leftovers succeeds and converges. Exhaustive in k for small cases, strided for large fan-out in the quick tier; schedules are perturbed, not enumerated.",
        note="Includes SIGKILL of a receiving sub-process at drawn packet positions. Liveness by quiescence cannot see a livelock (no retry loops exist). The thorough tier also runs half of the shards under the race detector.",
        ref="4 C04"),
    "C08": dict(
        technique="metamorphic testing over schedules: one case executed under M harness-steered schedules (capacities, GOMAXPROCS, seeded per-operation delays, read gates) with outcome equality as the oracle; in-flight counters on the harness stream; Go race detector build on half of the shards",
        text="A fixed source/destination pair with 30-120 multi-chunk files (or 400/700 smaller ones) is transferred under 6 (quick) or 24 (thorough) drawn schedules: stream capacity 0-64, GOMAXPROCS 1-16, deterministic per-operation disturbances before and after every stream call, before every source read and inside the hasher/notify callbacks, and a gate that releases parked readers in a drawn order. The canonical outcome (destination snapshot, content-request set, notification set with digests, hard-link exception removed) must be identical across schedules, and a run that becomes quiescent without returning under any schedule is a violation; the raw endpoints handed to Send/Receive count in-flight calls and must never see two SendMsg or two RecvMsg at once; odd shards run under the race detector. A second sub-run (walkrace) does the same on small trees whose old destination holds directories that the source replaces by fifos, symlinks, devices or nothing, perturbing both on-disk walkers through the verif-tagged hook and holding the destination walker between reporting and opening such a directory until the disk writer has dealt with it. Sampled schedules, no proof.",
        note="Go offers no deterministic scheduler: interleavings inside one end that never touch the stream, a read or a callback are only perturbed. Absence of data races is established for the explored executions only.",
        ref="4 C08"),
}

NOT_YET = "check not built yet in this round (planned, see DESIGN.md section 9)"


def main():
    props = [json.loads(l) for l in open(os.path.join(ROOT, "properties.jsonl"))]
    checks, na = [], []
    for p in props:
        pid = p["id"]
        c = CLAIMS.get(pid)
        if not c:
            na.append({"property_id": pid, "reason": NOT_YET})
            continue
        checks.append({
            "property_id": pid,
            "quick_cmd": "./check %s quick" % pid,
            "thorough_cmd": "./check %s thorough" % pid,
            "evidence_file": "/verif/evidence/%s.json" % pid,
            "replay_cmd_template": "./check %s --replay {path}" % pid,
            "engine": "rapid-go",
            "level_claimed": {"category": c.get("category", "exploration"), "text": c["text"], "design_ref": "DESIGN.md section " + c["ref"]},
            "level_note": c["note"],
            "technique": c["technique"],
        })
    hooks_commits = []
    hp = os.path.join(ROOT, "MANIFEST.hooks")
    if os.path.exists(hp):
        for l in open(hp):
            l = l.strip()
            if l and not l.startswith("#"):
                hooks_commits.append(l.split()[0])
    doc = {
        "version": 1,
        "setup_cmd": "./check --setup",
        "hooks": {
            "guard": "verif",
            "enable": "go build tag: go test -tags verif (the driver always passes it); hook code lives in add-only files guarded by //go:build verif",
            "baseline_off_cmd": "cd /repo && GOPROXY=off GOSUMDB=off GOTOOLCHAIN=local go test -json -vet=off -count=1 -timeout 25m ./...",
            "source_commits": hooks_commits,
            "add_only": True,
        },
        "engines": [
            {"name": "rapid-go", "path": "/verif/checks", "serves_properties": [c["property_id"] for c in checks],
             "kind_free_text": "pgregory.net/rapid v1.3.0 property tests (+ small-scope enumerators and go native fuzz targets) in one Go test package, sharded and merged by the python driver /verif/check"},
        ],
        "checks": checks,
        "not_applicable": na,
        "notes": "Driver: ./check <id> quick|thorough|--replay <file>. Exit 0 held, 1 VIOLATION, 2 inconclusive (build failure, wall-clock cap). Known findings: /verif/known_findings.json.",
    }
    json.dump(doc, open(os.path.join(ROOT, "MANIFEST.json"), "w"), indent=1)
    print("claimed:", [c["property_id"] for c in checks])


if __name__ == "__main__":
    main()
