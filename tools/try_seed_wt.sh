#!/bin/bash
# usage: tools/try_seed_wt.sh <patch.diff> <Cnn> [tier]
# Development helper: like try_seed.sh, but the change is applied to a scratch worktree of /repo's HEAD
# (removed afterwards) and the check of a *copy* of /verif (VDIR, default /var/tmp/vdev) is pointed at it with
# VERIF_REPO_OVERRIDE, so it can run while /repo itself is busy. Results recorded in seeded/*/meta.json never
# come from here: they come from try_seed.sh / verify_seed.py, which apply the change to /repo.
patch="$1"; pid="$2"; tier="${3:-quick}"; VDIR="${VDIR:-/var/tmp/vdev}"
wt=/tmp/tswt-$pid-$$
git -C /repo worktree add --detach "$wt" HEAD >/dev/null 2>&1 || { echo "worktree failed"; exit 3; }
trap 'git -C /repo worktree remove --force '"$wt"' >/dev/null 2>&1; rm -rf '"$wt"'; rm -f '"$VDIR"'/replays/'"$pid"'/quick-* '"$VDIR"'/replays/'"$pid"'/thorough-*' EXIT
git -C "$wt" apply "$patch" || { echo "APPLY-FAILED $patch"; exit 3; }
cd "$VDIR" && VERIF_REPO_OVERRIDE="$wt" ./check "$pid" "$tier" > /tmp/try_seed_wt.$pid.$$.log 2>&1; rc=$?
grep -E "VIOLATION|INCONCLUSIVE|BUILD-FAILED|^C[0-9]+ (quick|thorough):|violated" /tmp/try_seed_wt.$pid.$$.log | cut -c1-${TRY_COLS:-400} | head -${TRY_LINES:-6}
rm -f /tmp/try_seed_wt.$pid.$$.log
echo "exit=$rc"
