#!/usr/bin/env python3
"""Fill the <!-- SEEDED-TABLE --> section of DESIGN.md from seeded/*/meta.json."""
import json, glob, os, re
ROOT = os.path.dirname(os.path.dirname(os.path.abspath(__file__)))
rows = []
SUMM = json.load(open(os.path.join(ROOT, "tools", "seed_summaries.json")))
for d in sorted(glob.glob(os.path.join(ROOT, "seeded", "*"))):
    m = json.load(open(os.path.join(d, "meta.json")))
    patch = open(os.path.join(d, "patch.diff")).read()
    files = sorted(set(re.findall(r"^\+\+\+ b/(\S+)", patch, re.M)))
    summ = m.get("summary") or SUMM.get(m["id"], "")
    if not m.get("summary") and summ:
        m["summary"] = summ
        json.dump(m, open(os.path.join(d, "meta.json"), "w"), indent=1)
    rows.append("| %s | %s | %s | %s |" % (m["id"], ", ".join(files), summ.replace("|", "\\|"), ("caught by `./check %s quick`" % m.get("check_property", m["property"]) + (" (rebased patch)" if m.get("patch_used") == "patch.rebased.diff" else "")) if m.get("check_detects") else ("no longer breaks the property since fix %s (its demonstration passes); caught before" % m["neutralised_by"] if m.get("neutralised_by") else "**missed**")))
table = "| id | files changed | what it breaks / what it needs to manifest | result |\n|---|---|---|---|\n" + "\n".join(rows)
p = os.path.join(ROOT, "DESIGN.md")
s = open(p).read()
s = re.sub(r"<!-- SEEDED-TABLE -->.*?(?=\n---------)", lambda m: "<!-- SEEDED-TABLE -->\n" + table + "\n", s, flags=re.S)
open(p, "w").write(s)
print(len(rows), "rows;", sum(1 for r in rows if "missed" in r), "missed")
