#!/usr/bin/env python3
"""Re-verify a sub-agent's seeded change in a scratch worktree and file it under /verif/seeded/<id>/.

usage: tools/verify_seed.py <Cnn> <variant> [<patch-file>]   e.g. tools/verify_seed.py C01 a

Steps (all in a scratch worktree of /repo's HEAD under /tmp, removed afterwards):
  1. demo test passes on the unchanged code
  2. the change applies, the repository builds and its test suite (without the demo) passes
  3. the demo fails with the change
Then the registered check is run against /repo with the change applied (and reverted straight after).
"""
import json, os, re, shutil, subprocess, sys, glob

ENV = dict(os.environ, GOPROXY="off", GOSUMDB="off", GOTOOLCHAIN="local")


def sh(cmd, cwd=None, timeout=900):
    p = subprocess.run(cmd, shell=True, cwd=cwd, env=ENV, stdout=subprocess.PIPE, stderr=subprocess.STDOUT, text=True, errors="replace", timeout=timeout)
    return p.returncode, p.stdout


def main():
    pid, var = sys.argv[1], sys.argv[2]
    srcroot = os.environ.get("SEED_SRC", "/tmp/seedout")
    name = os.environ.get("SEED_AS", var)  # id suffix under /verif/seeded
    src = "%s/%s/%s" % (srcroot, pid, var)
    patch = sys.argv[3] if len(sys.argv) > 3 else os.path.join(src, "patch.diff")
    demos = [f for f in glob.glob(os.path.join(src, "zz_demo_*_test.go"))]
    if not demos:
        print("no demo file in", src)
        return 2
    demo = demos[0]
    pkgline = re.search(r"^package\s+(\w+)", open(demo, errors="replace").read(), re.M).group(1)
    pkgdir = {"fsutil": ".", "fsutil_test": ".", "fs": "copy", "fs_test": "copy", "util": "util", "util_test": "util", "types": "types"}.get(pkgline, ".")
    testname = "TestDemo" + ("A" if "demo_a" in demo else "B" if "demo_b" in demo else "C")
    wt = "/tmp/vs-%s-%s" % (pid, name)
    sh("git -C /repo worktree remove --force %s" % wt)
    rc, out = sh("git -C /repo worktree add --detach %s HEAD" % wt)
    if rc != 0:
        print(out)
        return 2
    meta = {"id": "%s-%s" % (pid, name), "property": pid, "source": "independent sub-agent given only the property text and its own scratch worktree"}
    try:
        shutil.copy(demo, os.path.join(wt, pkgdir, os.path.basename(demo)))
        run_demo = "go test -vet=off -count=1 -run '^%s$' ./%s" % (testname, pkgdir)
        rc, out = sh(run_demo, cwd=wt)
        meta["demo_on_unchanged_code"] = "pass" if rc == 0 else "FAIL"
        if rc != 0:
            meta["demo_on_unchanged_output"] = out[-1500:]
        rc, out = sh("git apply %s" % patch, cwd=wt)
        if rc != 0:
            rc, out = sh("git apply --3way %s" % patch, cwd=wt)
        if rc != 0:
            meta["apply"] = "FAILED: " + out[-500:]
            print(json.dumps(meta, indent=1))
            return 1
        rc, out = sh("git diff", cwd=wt)
        applied_diff = out
        rc, out = sh("go build ./... && go test -vet=off -count=1 -skip 'TestDemo' ./...", cwd=wt)
        meta["suite_with_change"] = "pass" if rc == 0 else "FAIL"
        if rc != 0:
            meta["suite_output"] = out[-1500:]
        rc, out = sh(run_demo, cwd=wt)
        meta["demo_with_change"] = "fail" if rc != 0 else "PASSES (change not demonstrated)"
        meta["demo_failure_excerpt"] = "\n".join(l for l in out.splitlines() if "FAIL" in l or "Error" in l or "expected" in l or "panic" in l)[:1200]
    finally:
        sh("git -C /repo worktree remove --force %s" % wt)
        shutil.rmtree(wt, ignore_errors=True)
    ok = meta.get("demo_on_unchanged_code") == "pass" and meta.get("suite_with_change") == "pass" and meta.get("demo_with_change") == "fail"
    meta["confirmed"] = ok
    notes = os.path.join(src, "notes.md")
    if os.path.exists(notes):
        txt = open(notes, errors='replace').read()
        meta["needs_to_manifest"] = txt[:2500]
    # run the registered check against the change
    ptmp = "/tmp/seed-%s-%s.diff" % (pid, name)
    open(ptmp, "w").write(applied_diff)
    rc, out = sh("TRY_LINES=3 /verif/tools/try_seed.sh %s %s quick" % (ptmp, pid), cwd="/verif", timeout=1800)
    meta["check_command"] = "./check %s quick (with the change applied to /repo, reverted afterwards)" % pid
    m = re.search(r"exit=(\d+)", out)
    meta["check_exit"] = int(m.group(1)) if m else None
    meta["check_detects"] = bool(m and m.group(1) == "1")
    meta["check_output_excerpt"] = out[-900:]
    meta["demo_command"] = "cd <worktree> && " + ("go test -vet=off -count=1 -run '^%s$' ./%s" % (testname, pkgdir))
    if ok:
        d = "/verif/seeded/%s-%s" % (pid, name)
        os.makedirs(d, exist_ok=True)
        open(os.path.join(d, "patch.diff"), "w").write(applied_diff)
        shutil.copy(demo, os.path.join(d, os.path.basename(demo)))
        json.dump(meta, open(os.path.join(d, "meta.json"), "w"), indent=1)
    print(json.dumps({k: meta[k] for k in ("id", "confirmed", "demo_on_unchanged_code", "suite_with_change", "demo_with_change", "check_exit", "check_detects") if k in meta}))
    return 0 if ok else 1


if __name__ == "__main__":
    sys.exit(main())
