#!/bin/bash
# Re-run every claimed check's quick command on the unchanged tree so the committed evidence describes such a run.
cd /verif
if ! git -C /repo diff --quiet; then echo "/repo dirty"; exit 3; fi
fail=0
for pid in $(python3 -c "import json;print(' '.join(c['property_id'] for c in json.load(open('MANIFEST.json'))['checks']))"); do
  if [ -n "$1" ] && [ "$1" != "$pid" ]; then continue; fi
  VERIF_SEED=1 ./check $pid quick > /tmp/refresh.$pid.log 2>&1; rc=$?
  tail -1 /tmp/refresh.$pid.log; [ $rc -ne 0 ] && { echo "!! $pid exit=$rc"; fail=1; }
done
python3-vt - <<'PY'
import json,jsonschema,glob
sch=json.load(open('/root/.vp/EVIDENCE.schema.json'))
for f in sorted(glob.glob('/verif/evidence/*.json')):
    jsonschema.validate(json.load(open(f)),sch)
jsonschema.validate(json.load(open('/verif/MANIFEST.json')),json.load(open('/root/.vp/MANIFEST.schema.json')))
print("evidence+manifest valid")
PY
exit $fail
