#!/bin/bash
# usage: tools/try_seed.sh <patch.diff> <Cnn> [tier]   — apply a seeded change to /repo, run the check, always revert.
# The evidence file of the property is saved and restored (evidence must come from the unchanged tree).
patch="$1"; pid="$2"; tier="${3:-quick}"
if ! git -C /repo diff --quiet; then echo "/repo dirty"; exit 3; fi
git -C /repo apply "$patch" || { echo "APPLY-FAILED $patch"; exit 3; }
cp /verif/evidence/$pid.json /tmp/evidence.$pid.$$ 2>/dev/null
trap 'git -C /repo checkout -- . ; [ -f /tmp/evidence.'$pid.$$' ] && mv /tmp/evidence.'$pid.$$' /verif/evidence/'$pid'.json; rm -f /verif/replays/'$pid'/quick-* /verif/replays/'$pid'/thorough-*' EXIT
cd /verif && ./check "$pid" "$tier" > /tmp/try_seed.$pid.log 2>&1; rc=$?
grep -E "VIOLATION|INCONCLUSIVE|BUILD-FAILED|^C[0-9]+ (quick|thorough):|violated" /tmp/try_seed.$pid.log | head -${TRY_LINES:-6}
echo "exit=$rc"
