#!/bin/bash
# usage: tools/try_seed.sh <patch.diff> <Cnn> [tier]   — apply a seeded change to /repo, run the check, always revert
patch="$1"; pid="$2"; tier="${3:-quick}"
if ! git -C /repo diff --quiet; then echo "/repo dirty"; exit 3; fi
git -C /repo apply "$patch" || { echo "APPLY-FAILED $patch"; exit 3; }
trap 'git -C /repo checkout -- . ' EXIT
cd /verif && ./check "$pid" "$tier" 2>&1 | grep -E "VIOLATION|INCONCLUSIVE|BUILD-FAILED|^C[0-9]+ (quick|thorough):|violated" | head -8
echo "exit=${PIPESTATUS[0]}"
